package mcp

// Scenario replay for C10: event ids on one SSE stream are pairwise distinct.

import (
	"bufio"
	"context"
	"net/http"
	"net/http/httptest"
	"strings"
	"testing"
)

func TestGovcScenarioEventIDsDistinctOnOneStream(t *testing.T) {
	srv := NewServer("s", "1", WithPostSSEEnabled(true), WithStatelessMode(true))
	srv.RegisterTool(NewTool("burst"), func(ctx context.Context, req *CallToolRequest) (*CallToolResult, error) {
		if sender, ok := GetNotificationSender(ctx); ok {
			sender.SendLogMessage("info", "one")
		}
		return NewTextResult("done"), nil
	})
	ts := httptest.NewServer(srv.HTTPHandler())
	defer ts.Close()
	for round := 0; round < 200; round++ {
		body := `{"jsonrpc":"2.0","id":7,"method":"tools/call","params":{"name":"burst","arguments":{}}}`
		req, _ := http.NewRequest("POST", ts.URL+"/mcp", strings.NewReader(body))
		req.Header.Set("Content-Type", "application/json")
		req.Header.Set("Accept", "application/json, text/event-stream")
		resp, err := http.DefaultClient.Do(req)
		if err != nil {
			t.Fatal(err)
		}
		seen := map[string]int{}
		n := 0
		sc := bufio.NewScanner(resp.Body)
		for sc.Scan() {
			if strings.HasPrefix(sc.Text(), "id:") {
				seen[strings.TrimSpace(sc.Text()[3:])]++
				n++
			}
		}
		resp.Body.Close()
		if n < 2 {
			t.Fatalf("expected a notification event and a result event on the stream, got %d events (status %d)", n, resp.StatusCode)
		}
		for id, c := range seen {
			if c > 1 {
				t.Fatalf("GOVC-VIOLATED: event id %q appears %d times on one SSE stream (the notification sender and the responder each number their events from 1)", id, c)
			}
		}
	}
}
