package mcp

// Scenario replay for C07: a prompts/get answer with a null message must not panic the client.

import (
	"context"
	"fmt"
	"net/http"
	"net/http/httptest"
	"strings"
	"testing"
	"time"
)

func TestGovcScenarioNullPromptMessage(t *testing.T) {
	ts := httptest.NewServer(http.HandlerFunc(func(w http.ResponseWriter, r *http.Request) {
		buf := make([]byte, 1<<16)
		k, _ := r.Body.Read(buf)
		body := string(buf[:k])
		if !strings.Contains(body, `"id"`) {
			w.WriteHeader(202)
			return
		}
		var id int
		fmt.Sscanf(body[strings.Index(body, `"id":`)+5:], "%d", &id)
		w.Header().Set("Content-Type", "application/json")
		if strings.Contains(body, `"prompts/get"`) {
			fmt.Fprintf(w, `{"jsonrpc":"2.0","id":%d,"result":{"messages":[null]}}`, id)
			return
		}
		fmt.Fprintf(w, `{"jsonrpc":"2.0","id":%d,"result":{"protocolVersion":"2025-03-26","capabilities":{},"serverInfo":{"name":"s","version":"1"}}}`, id)
	}))
	defer ts.Close()
	c, err := NewClient(ts.URL, Implementation{Name: "c", Version: "1"}, WithClientGetSSEEnabled(false))
	if err != nil {
		t.Fatal(err)
	}
	defer c.Close()
	ctx, cancel := context.WithTimeout(context.Background(), 5*time.Second)
	defer cancel()
	if _, err := c.Initialize(ctx, &InitializeRequest{}); err != nil {
		t.Fatalf("initialize: %v", err)
	}
	defer func() {
		if r := recover(); r != nil {
			t.Fatalf("client panicked on a null prompt message: %v", r)
		}
	}()
	req := &GetPromptRequest{}
	req.Params.Name = "p"
	res, err := c.GetPrompt(ctx, req)
	t.Logf("GetPrompt: res=%v err=%v", res, err)
}
