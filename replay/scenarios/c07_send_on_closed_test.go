package mcp

// Scenario replays for C07: a reader goroutine must not panic with a send on a closed channel.

import (
	"context"
	"encoding/json"
	"io"
	"os/exec"
	"sync"
	"testing"
	"time"
)

// A response that arrives while its call is giving up (context ended): the reader
// (handleResponse) has looked the pending channel up and released the lock; the call's
// cleanup deletes the entry and closes the channel; the reader's send then panics.
func TestGovcScenarioStdioSendOnClosedChannel(t *testing.T) {
	var what interface{}
	var mu sync.Mutex
	done, cancel := context.WithCancel(context.Background())
	cancel()
	for i := 0; i < 20000 && what == nil; i++ {
		tr := &stdioClientTransport{process: &exec.Cmd{}, encoder: json.NewEncoder(io.Discard), pendingRequests: map[int64]chan *json.RawMessage{},
			ctx: context.Background(), timeout: time.Minute, logger: GetDefaultLogger()}
		var wg sync.WaitGroup
		wg.Add(2)
		start := make(chan struct{})
		go func() {
			defer wg.Done()
			defer func() {
				if r := recover(); r != nil {
					mu.Lock()
					what = r
					mu.Unlock()
				}
			}()
			<-start
			for k := 0; k < 20; k++ {
				tr.handleResponse(json.RawMessage(`{"jsonrpc":"2.0","id":1,"result":{}}`))
			}
		}()
		go func() {
			defer wg.Done()
			<-start
			tr.sendRequest(done, &JSONRPCRequest{JSONRPC: "2.0", ID: int64(1), Request: Request{Method: "ping"}})
		}()
		close(start)
		wg.Wait()
	}
	if what != nil {
		t.Fatalf("GOVC-VIOLATED: the stdout reader panicked while a call was giving up concurrently: %v", what)
	}
}

// The stream reader (handleResponse) looks a pending channel up under the read lock and
// sends on it; close() closes every pending channel. A send on a closed channel panics
// even inside a select with a default case, and readSSE has no recover.
func TestGovcScenarioSSESendOnClosedChannel(t *testing.T) {
	var what interface{}
	var mu sync.Mutex
	for i := 0; i < 100000 && what == nil; i++ {
		tr := &sseClientTransport{responses: map[string]chan *json.RawMessage{"1": make(chan *json.RawMessage, 1)}}
		var wg sync.WaitGroup
		wg.Add(2)
		start := make(chan struct{})
		go func() {
			defer wg.Done()
			defer func() {
				if r := recover(); r != nil {
					mu.Lock()
					what = r
					mu.Unlock()
				}
			}()
			<-start
			tr.handleResponse(`{"jsonrpc":"2.0","id":1,"result":{}}`)
		}()
		go func() {
			defer wg.Done()
			<-start
			tr.close()
		}()
		close(start)
		wg.Wait()
	}
	if what != nil {
		t.Fatalf("GOVC-VIOLATED: the stream reader panicked while close() ran concurrently: %v", what)
	}
}
