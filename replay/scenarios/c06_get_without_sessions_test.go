package mcp

// Scenario replay for C06: a GET bearing a session id on a server built without sessions is answered with a
// status (the handler has no session manager to ask).

import (
	"net/http"
	"net/http/httptest"
	"testing"
)

func TestGovcScenarioGetOnServerWithoutSessions(t *testing.T) {
	srv := NewServer("s", "1", WithoutSession())
	ts := httptest.NewServer(srv.HTTPHandler())
	defer ts.Close()
	req, _ := http.NewRequest("GET", ts.URL+"/mcp", nil)
	req.Header.Set("Accept", "text/event-stream")
	req.Header.Set("Mcp-Session-Id", "abc")
	resp, err := http.DefaultClient.Do(req)
	if err != nil {
		t.Fatalf("the peer got no HTTP answer (handler panicked): %v", err)
	}
	defer resp.Body.Close()
	if resp.StatusCode < 400 {
		t.Fatalf("status %d, want an error status", resp.StatusCode)
	}
}
