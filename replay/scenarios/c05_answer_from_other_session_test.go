package mcp

// Scenario replay for C05: the answer accepted for a server-issued request is the one
// posted by the session it was sent to.

import (
	"bufio"
	"context"
	"fmt"
	"io"
	"net/http"
	"net/http/httptest"
	"strings"
	"testing"
	"time"
)

func c05Post(t *testing.T, url, sid, body string) (*http.Response, string) {
	req, _ := http.NewRequest("POST", url, strings.NewReader(body))
	req.Header.Set("Content-Type", "application/json")
	req.Header.Set("Accept", "application/json")
	if sid != "" {
		req.Header.Set("Mcp-Session-Id", sid)
	}
	resp, err := http.DefaultClient.Do(req)
	if err != nil {
		t.Fatal(err)
	}
	b, _ := io.ReadAll(resp.Body)
	resp.Body.Close()
	return resp, string(b)
}

func c05Init(t *testing.T, url string) string {
	resp, _ := c05Post(t, url, "", `{"jsonrpc":"2.0","id":1,"method":"initialize","params":{"protocolVersion":"2025-03-26","capabilities":{"roots":{"listChanged":true}},"clientInfo":{"name":"c","version":"1"}}}`)
	sid := resp.Header.Get("Mcp-Session-Id")
	if sid == "" {
		t.Fatal("no session id issued")
	}
	c05Post(t, url, sid, `{"jsonrpc":"2.0","method":"notifications/initialized"}`)
	return sid
}

func TestGovcScenarioAnswerFromAnotherSession(t *testing.T) {
	srv := NewServer("s", "1", WithServerPath("/mcp"))
	srv.RegisterTool(NewTool("roots"), func(ctx context.Context, req *CallToolRequest) (*CallToolResult, error) {
		lctx, cancel := context.WithTimeout(ctx, 3*time.Second)
		defer cancel()
		res, err := srv.ListRoots(lctx)
		if err != nil {
			return NewTextResult("error: " + err.Error()), nil
		}
		s := ""
		for _, r := range res.Roots {
			s += r.URI + ";"
		}
		return NewTextResult("roots: " + s), nil
	})
	ts := httptest.NewServer(srv.HTTPHandler())
	defer ts.Close()
	url := ts.URL + "/mcp"
	sidA, sidB := c05Init(t, url), c05Init(t, url)

	// A's listening stream: report the id of the server-issued request
	greq, _ := http.NewRequest("GET", url, nil)
	greq.Header.Set("Accept", "text/event-stream")
	greq.Header.Set("Mcp-Session-Id", sidA)
	gresp, err := http.DefaultClient.Do(greq)
	if err != nil || gresp.StatusCode != 200 {
		t.Fatalf("GET stream: %v %v", err, gresp)
	}
	defer gresp.Body.Close()
	idc := make(chan string, 1)
	go func() {
		sc := bufio.NewScanner(gresp.Body)
		for sc.Scan() {
			if l := sc.Text(); strings.HasPrefix(l, "data:") && strings.Contains(l, "roots/list") {
				var id int
				k := strings.Index(l, `"id":`)
				fmt.Sscanf(l[k+5:], "%d", &id)
				idc <- fmt.Sprint(id)
				return
			}
		}
	}()
	time.Sleep(100 * time.Millisecond)

	out := make(chan string, 1)
	go func() {
		_, body := c05Post(t, url, sidA, `{"jsonrpc":"2.0","id":2,"method":"tools/call","params":{"name":"roots","arguments":{}}}`)
		out <- body
	}()
	var id string
	select {
	case id = <-idc:
	case <-time.After(3 * time.Second):
		t.Fatal("server request never reached A's stream")
	}
	// session B answers A's request
	c05Post(t, url, sidB, `{"jsonrpc":"2.0","id":`+id+`,"result":{"roots":[{"uri":"file:///forged-by-B","name":"x"}]}}`)
	time.Sleep(200 * time.Millisecond)
	// A's own answer
	c05Post(t, url, sidA, `{"jsonrpc":"2.0","id":`+id+`,"result":{"roots":[{"uri":"file:///real-A","name":"a"}]}}`)
	body := <-out
	if strings.Contains(body, "forged-by-B") {
		t.Fatalf("GOVC-VIOLATED: the roots/list request sent to session A was answered by session B's post: %s", body)
	}
	if !strings.Contains(body, "real-A") {
		t.Fatalf("A's own answer was not accepted: %s", body)
	}
}
