package mcp

// Scenario replay for C03 on the Streamable HTTP server: wrong paths and
// handler results that cannot be encoded must be answered by a non-2xx status
// or a JSON-RPC error object, never by an empty or successful 2xx.

import (
	"context"
	"io"
	"math"
	"net/http"
	"net/http/httptest"
	"strings"
	"testing"
)

func TestGovcScenarioWrongPath(t *testing.T) {
	srv := NewServer("s", "1", WithServerPath("/mcp"))
	ts := httptest.NewServer(srv.HTTPHandler())
	defer ts.Close()
	resp, err := http.Post(ts.URL+"/wrong", "application/json", strings.NewReader(`{"jsonrpc":"2.0","id":1,"method":"ping"}`))
	if err != nil {
		t.Fatal(err)
	}
	body, _ := io.ReadAll(resp.Body)
	if resp.StatusCode/100 == 2 {
		t.Fatalf("GOVC-VIOLATED: POST to a path the server does not serve answered %d with body %q", resp.StatusCode, body)
	}
}

func TestGovcScenarioUnencodableResult(t *testing.T) {
	for _, mode := range []string{"json", "sse"} {
		opts := []ServerOption{WithServerPath("/mcp"), WithStatelessMode(true)}
		if mode == "sse" {
			opts = append(opts, WithPostSSEEnabled(true))
		} else {
			opts = append(opts, WithPostSSEEnabled(false))
		}
		srv := NewServer("s", "1", opts...)
		srv.RegisterTool(NewTool("nan"), func(ctx context.Context, r *CallToolRequest) (*CallToolResult, error) {
			res := NewTextResult("x")
			res.StructuredContent = map[string]interface{}{"v": math.NaN()}
			return res, nil
		})
		ts := httptest.NewServer(srv.HTTPHandler())
		req, _ := http.NewRequest("POST", ts.URL+"/mcp", strings.NewReader(`{"jsonrpc":"2.0","id":7,"method":"tools/call","params":{"name":"nan","arguments":{}}}`))
		req.Header.Set("Content-Type", "application/json")
		req.Header.Set("Accept", "application/json, text/event-stream")
		resp, err := http.DefaultClient.Do(req)
		if err != nil {
			ts.Close()
			continue // a dropped connection is not a 2xx
		}
		body, _ := io.ReadAll(resp.Body)
		ts.Close()
		if resp.StatusCode/100 == 2 && !strings.Contains(string(body), `"error"`) {
			t.Fatalf("GOVC-VIOLATED: mode=%s: a tool result that cannot be encoded was answered %d with body %q (no JSON-RPC error)", mode, resp.StatusCode, body)
		}
	}
}
