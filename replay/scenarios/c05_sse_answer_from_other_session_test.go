package mcp

// Scenario replay for C05 (legacy SSE): an answer to a server-issued request is accepted only from the session it was sent to.

import (
	"bufio"
	"context"
	"fmt"
	"io"
	"net/http"
	"net/http/httptest"
	"strings"
	"testing"
	"time"
)

type c05sse struct {
	endpoint string
	lines    chan string
}

func c05SSEConnect(t *testing.T, base string) *c05sse {
	resp, err := http.Get(base + "/sse")
	if err != nil {
		t.Fatal(err)
	}
	c := &c05sse{lines: make(chan string, 100)}
	ep := make(chan string, 1)
	go func() {
		sc := bufio.NewScanner(resp.Body)
		sc.Buffer(make([]byte, 1<<20), 1<<20)
		ev := ""
		for sc.Scan() {
			l := sc.Text()
			if strings.HasPrefix(l, "event:") {
				ev = strings.TrimSpace(l[6:])
			} else if strings.HasPrefix(l, "data:") {
				d := strings.TrimSpace(l[5:])
				if ev == "endpoint" {
					ep <- d
				} else {
					c.lines <- d
				}
			}
		}
	}()
	select {
	case e := <-ep:
		if strings.HasPrefix(e, "http") {
			c.endpoint = e
		} else {
			c.endpoint = base + e
		}
	case <-time.After(3 * time.Second):
		t.Fatal("no endpoint event")
	}
	return c
}

func (c *c05sse) post(t *testing.T, body string) {
	resp, err := http.Post(c.endpoint, "application/json", strings.NewReader(body))
	if err != nil {
		t.Fatal(err)
	}
	io.Copy(io.Discard, resp.Body)
	resp.Body.Close()
}

func (c *c05sse) waitFor(t *testing.T, sub string) string {
	deadline := time.After(4 * time.Second)
	for {
		select {
		case l := <-c.lines:
			if strings.Contains(l, sub) {
				return l
			}
		case <-deadline:
			t.Fatalf("timeout waiting for %q", sub)
		}
	}
}

func TestGovcScenarioSSEAnswerFromAnotherSession(t *testing.T) {
	srv := NewSSEServer("s", "1", WithBasePath(""))
	srv.RegisterTool(NewTool("roots"), func(ctx context.Context, req *CallToolRequest) (*CallToolResult, error) {
		lctx, cancel := context.WithTimeout(ctx, 3*time.Second)
		defer cancel()
		res, err := srv.ListRoots(lctx)
		if err != nil {
			return NewTextResult("error: " + err.Error()), nil
		}
		s := ""
		for _, r := range res.Roots {
			s += r.URI + ";"
		}
		return NewTextResult("roots: " + s), nil
	})
	ts := httptest.NewServer(srv)
	defer ts.Close()
	defer ts.CloseClientConnections()
	a, b := c05SSEConnect(t, ts.URL), c05SSEConnect(t, ts.URL)
	for _, c := range []*c05sse{a, b} {
		c.post(t, `{"jsonrpc":"2.0","id":1,"method":"initialize","params":{"protocolVersion":"2024-11-05","capabilities":{"roots":{"listChanged":true}},"clientInfo":{"name":"c","version":"1"}}}`)
		c.waitFor(t, `"id":1`)
		c.post(t, `{"jsonrpc":"2.0","method":"notifications/initialized"}`)
	}
	a.post(t, `{"jsonrpc":"2.0","id":2,"method":"tools/call","params":{"name":"roots","arguments":{}}}`)
	l := a.waitFor(t, "roots/list")
	var id int
	fmt.Sscanf(l[strings.Index(l, `"id":`)+5:], "%d", &id)
	b.post(t, fmt.Sprintf(`{"jsonrpc":"2.0","id":%d,"result":{"roots":[{"uri":"file:///forged-by-B","name":"x"}]}}`, id))
	time.Sleep(200 * time.Millisecond)
	a.post(t, fmt.Sprintf(`{"jsonrpc":"2.0","id":%d,"result":{"roots":[{"uri":"file:///real-A","name":"a"}]}}`, id))
	out := a.waitFor(t, `"id":2`)
	if strings.Contains(out, "forged-by-B") {
		t.Fatalf("GOVC-VIOLATED: the roots/list request sent to legacy SSE session A was answered by session B's post: %s", out)
	}
	if !strings.Contains(out, "real-A") {
		t.Fatalf("A's own answer was not accepted: %s", out)
	}
}
