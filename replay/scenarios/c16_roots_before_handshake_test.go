package mcp

import (
	"context"
	"net/http"
	"net/http/httptest"
	"sync/atomic"
	"testing"
)

func TestGovcScenarioRootsBeforeHandshake(t *testing.T) {
	var hits int32
	srv := httptest.NewServer(http.HandlerFunc(func(w http.ResponseWriter, r *http.Request) { atomic.AddInt32(&hits, 1); w.WriteHeader(202) }))
	defer srv.Close()
	c, err := NewClient(srv.URL, Implementation{Name: "x", Version: "1"})
	if err != nil {
		t.Fatal(err)
	}
	err = c.SendRootsListChangedNotification(context.Background())
	if err == nil || atomic.LoadInt32(&hits) != 0 {
		t.Fatalf("GOVC-VIOLATED: operation before handshake: err=%v network requests=%d", err, hits)
	}
}
