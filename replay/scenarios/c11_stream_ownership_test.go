package mcp

// Scenario replay for C11: a newer listening stream owns the session; the old
// stream's exit must not evict it, and the stream must be usable as soon as its
// response headers have been received.

import (
	"context"
	"net/http/httptest"
	"strings"
	"testing"
	"time"
)

type flushProbe struct {
	*httptest.ResponseRecorder
	onFlush func()
	flushed int
}

func (f *flushProbe) Flush() {
	f.flushed++
	if f.flushed == 1 && f.onFlush != nil {
		f.onFlush()
	}
}

func newStatefulHandlerWithSession(t *testing.T) (*Server, *httpServerHandler, string) {
	srv := NewServer("s", "1", WithServerPath("/mcp"))
	h := srv.httpHandler
	sess := h.sessionManager.createSession()
	return srv, h, sess.GetID()
}

func TestGovcScenarioOldStreamExitEvictsNew(t *testing.T) {
	srv, h, sid := newStatefulHandlerWithSession(t)
	open := func() (context.CancelFunc, chan struct{}) {
		ctx, cancel := context.WithCancel(context.Background())
		req := httptest.NewRequest("GET", "/mcp", nil).WithContext(ctx)
		req.Header.Set("Mcp-Session-Id", sid)
		req.Header.Set("Accept", "text/event-stream")
		done := make(chan struct{})
		go func() { h.ServeHTTP(&flushProbe{ResponseRecorder: httptest.NewRecorder()}, req); close(done) }()
		return cancel, done
	}
	cancel1, done1 := open()
	time.Sleep(100 * time.Millisecond)
	cancel2, _ := open() // the reconnect: closes the first stream
	defer cancel2()
	defer cancel1()
	select {
	case <-done1:
	case <-time.After(2 * time.Second):
		t.Fatalf("GOVC-VIOLATED: the old listening stream was not closed when a new one was opened")
	}
	time.Sleep(200 * time.Millisecond) // let the old stream's teardown run
	if err := srv.SendNotification(sid, "notifications/message", map[string]interface{}{"level": "info", "data": "x"}); err != nil {
		t.Fatalf("GOVC-VIOLATED: after a reconnect the session has no stream any more: %v", err)
	}
}

func TestGovcScenarioHeadersBeforeRegistration(t *testing.T) {
	srv, h, sid := newStatefulHandlerWithSession(t)
	ctx, cancel := context.WithCancel(context.Background())
	defer cancel()
	req := httptest.NewRequest("GET", "/mcp", nil).WithContext(ctx)
	req.Header.Set("Mcp-Session-Id", sid)
	var sendErr error
	sent := make(chan struct{})
	w := &flushProbe{ResponseRecorder: httptest.NewRecorder()}
	// the client has received the headers once they are flushed; from then on a send must succeed
	w.onFlush = func() {
		go func() {
			sendErr = srv.SendNotification(sid, "notifications/message", map[string]interface{}{"level": "info", "data": "x"})
			close(sent)
		}()
		time.Sleep(100 * time.Millisecond) // a slow flush: the client already has the headers
	}
	go h.ServeHTTP(w, req)
	select {
	case <-sent:
	case <-time.After(2 * time.Second):
		t.Fatalf("GOVC-VIOLATED: a send issued when the stream's headers were flushed never completed")
	}
	if sendErr != nil && strings.Contains(sendErr.Error(), "not found") {
		t.Fatalf("GOVC-VIOLATED: a notification sent after the stream's headers were flushed failed: %v", sendErr)
	}
}
