package mcp

// Scenario replay for C05: on the legacy SSE server a session whose client has completed the handshake can be
// sent notifications.

import (
	"context"
	"net/http/httptest"
	"testing"
	"time"
)

func TestGovcScenarioLegacySSENotificationAfterHandshake(t *testing.T) {
	srv := NewSSEServer("s", "1")
	ts := httptest.NewServer(srv)
	defer ts.Close()
	c, err := NewSSEClient(ts.URL+"/sse", Implementation{Name: "c", Version: "1"})
	if err != nil {
		t.Fatal(err)
	}
	defer c.Close()
	ctx, cancel := context.WithTimeout(context.Background(), 5*time.Second)
	defer cancel()
	if _, err := c.Initialize(ctx, &InitializeRequest{}); err != nil {
		t.Fatalf("initialize: %v", err)
	}
	// notifications/initialized is POSTed by Initialize and processed asynchronously by the server
	var id string
	deadline := time.Now().Add(3 * time.Second)
	for time.Now().Before(deadline) {
		var sess *sseSession
		srv.sessions.Range(func(k, v interface{}) bool { id = k.(string); sess = v.(*sseSession); return false })
		if sess != nil && sess.Initialized() {
			break
		}
		time.Sleep(20 * time.Millisecond)
	}
	if id == "" {
		t.Fatal("no session")
	}
	if err := srv.SendNotification(id, "notifications/custom", map[string]interface{}{"a": 1}); err != nil {
		t.Fatalf("SendNotification to a session that completed its handshake: %v", err)
	}
}
