package mcp

// Scenario replay for C02: what a tool handler returns is what the caller receives.

import (
	"context"
	"fmt"
	"net/http/httptest"
	"reflect"
	"testing"
	"time"
)

func TestGovcScenarioContentFidelity(t *testing.T) {
	cases := map[string][]Content{
		"empty-text":          {NewTextContent("")},
		"text-with-u2028":     {NewTextContent("a b\nc"), NewTextContent("")},
		"audio":               {NewAudioContent("QUJD", "audio/wav")},
		"embedded-text":       {NewEmbeddedResource(TextResourceContents{URI: "file:///a", MIMEType: "text/plain", Text: "hello"})},
		"embedded-empty-text": {NewEmbeddedResource(TextResourceContents{URI: "file:///a", MIMEType: "text/plain", Text: ""})},
		"embedded-blob":       {NewEmbeddedResource(BlobResourceContents{URI: "file:///b", MIMEType: "application/octet-stream", Blob: "QUJD"})},
		"image":               {NewImageContent("QUJD", "image/png")},
	}
	srv := NewServer("s", "1")
	for name, items := range cases {
		items := items
		srv.RegisterTool(NewTool(name), func(ctx context.Context, req *CallToolRequest) (*CallToolResult, error) {
			return &CallToolResult{Content: items}, nil
		})
	}
	ts := httptest.NewServer(srv.HTTPHandler())
	defer ts.Close()
	c, err := NewClient(ts.URL+"/mcp", Implementation{Name: "c", Version: "1"}, WithClientGetSSEEnabled(false))
	if err != nil {
		t.Fatal(err)
	}
	defer c.Close()
	ctx, cancel := context.WithTimeout(context.Background(), 5*time.Second)
	defer cancel()
	if _, err := c.Initialize(ctx, &InitializeRequest{}); err != nil {
		t.Fatalf("initialize: %v", err)
	}
	bad := ""
	for name, items := range cases {
		res, err := c.CallTool(ctx, &CallToolRequest{Params: CallToolParams{Name: name}})
		if err != nil {
			bad += fmt.Sprintf("\n  %s: the caller got an error instead of the handler's result: %v", name, err)
			continue
		}
		if !reflect.DeepEqual(res.Content, items) {
			bad += fmt.Sprintf("\n  %s: sent %#v, received %#v", name, items, res.Content)
		}
	}
	if bad != "" {
		t.Fatalf("GOVC-VIOLATED: handler results that did not reach the caller unchanged:%s", bad)
	}
}
