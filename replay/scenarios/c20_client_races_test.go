package mcp

// Scenario replay for C20 obligations on the Streamable HTTP client and on
// Client: run with the race detector (go test -race).  Two goroutines use one
// client concurrently, as the property allows; a reported data race is the
// violation.

import (
	"context"
	"fmt"
	"net/http"
	"net/http/httptest"
	"sync"
	"testing"
)

func TestGovcScenarioRaceStreamableClient(t *testing.T) {
	srv := httptest.NewServer(http.HandlerFunc(func(w http.ResponseWriter, r *http.Request) {
		w.Header().Set("Mcp-Session-Id", "0123456789abcdef0123456789abcdef")
		if r.Method != http.MethodPost {
			w.WriteHeader(405)
			return
		}
		buf := make([]byte, 1<<16)
		n, _ := r.Body.Read(buf)
		var id float64
		fmt.Sscanf(string(buf[:n])[len(`{"jsonrpc":"2.0","id":`):], "%g", &id)
		if !bytesContains(buf[:n], `"id"`) {
			w.WriteHeader(202)
			return
		}
		w.Header().Set("Content-Type", "text/event-stream")
		fmt.Fprintf(w, "id: e%v\ndata: {\"jsonrpc\":\"2.0\",\"id\":%v,\"result\":{\"protocolVersion\":\"2025-03-26\",\"capabilities\":{},\"serverInfo\":{\"name\":\"s\",\"version\":\"1\"},\"tools\":[]}}\n\n", id, id)
	}))
	defer srv.Close()
	c, err := NewClient(srv.URL, Implementation{Name: "c", Version: "1"}, WithClientGetSSEEnabled(false))
	if err != nil {
		t.Fatal(err)
	}
	if _, err := c.Initialize(context.Background(), &InitializeRequest{}); err != nil {
		t.Fatalf("initialize: %v", err)
	}
	var wg sync.WaitGroup
	for g := 0; g < 4; g++ {
		wg.Add(1)
		go func() {
			defer wg.Done()
			for i := 0; i < 20; i++ {
				c.ListTools(context.Background(), &ListToolsRequest{})
				_ = c.GetSessionID()
				_ = c.GetState()
			}
		}()
	}
	wg.Wait()
	c.Close()
}

func bytesContains(b []byte, s string) bool {
	return len(b) >= len(s) && (string(b) != "" && (func() bool {
		for i := 0; i+len(s) <= len(b); i++ {
			if string(b[i:i+len(s)]) == s {
				return true
			}
		}
		return false
	})())
}
