package mcp

// Scenario replay for C09 on the stdio server: many requests are answered
// concurrently while notifications are pumped; every line of the output must be
// one complete JSON message.

import (
	"bytes"
	"context"
	"encoding/json"
	"fmt"
	"io"
	"strings"
	"sync"
	"testing"
	"time"
)

type chunkWriter struct {
	mu  sync.Mutex
	buf bytes.Buffer
}

// Write records the bytes; a tiny sleep between two Write calls of one frame widens the window
// exactly as a slow pipe would.
func (c *chunkWriter) Write(p []byte) (int, error) {
	c.mu.Lock()
	c.buf.Write(p)
	c.mu.Unlock()
	time.Sleep(50 * time.Microsecond)
	return len(p), nil
}

func TestGovcScenarioStdioFrames(t *testing.T) {
	srv := NewStdioServer("s", "1")
	srv.RegisterTool(NewTool("t"), func(ctx context.Context, r *CallToolRequest) (*CallToolResult, error) {
		return NewTextResult(strings.Repeat("x", 200)), nil
	})
	var in bytes.Buffer
	const n = 200
	for i := 1; i <= n; i++ {
		fmt.Fprintf(&in, `{"jsonrpc":"2.0","id":%d,"method":"tools/call","params":{"name":"t","arguments":{}}}`+"\n", i)
	}
	pr, pw := io.Pipe()
	go func() { io.Copy(pw, &in); time.Sleep(500 * time.Millisecond); pw.Close() }()
	out := &chunkWriter{}
	tr := newStdioTransport(srv.internal)
	ctx, cancel := context.WithTimeout(context.Background(), 3*time.Second)
	defer cancel()
	tr.listen(ctx, pr, out)
	time.Sleep(300 * time.Millisecond)
	out.mu.Lock()
	data := out.buf.String()
	out.mu.Unlock()
	lines := strings.Split(strings.TrimRight(data, "\n"), "\n")
	bad := 0
	for _, l := range lines {
		var v map[string]interface{}
		if json.Unmarshal([]byte(l), &v) != nil {
			bad++
		}
	}
	if bad > 0 || len(lines) != n {
		t.Fatalf("GOVC-VIOLATED: %d of %d stdout lines are not one complete JSON message (expected %d lines)", bad, len(lines), n)
	}
}
