package mcp

// Scenario replay for C19: a client with a custom path, a static header, a
// before-request function and a recording request handler; every request it
// emits (initialize, initialized, a call, the answer to a server-issued
// roots/list request, the session DELETE) must go to the configured path
// through the handler, carry the static header and pass the before-request
// function once.

import (
	"context"
	"fmt"
	"net/http"
	"net/http/httptest"
	"strings"
	"sync"
	"testing"
)

type recordingHandler struct {
	mu   sync.Mutex
	seen []string
}

func (h *recordingHandler) Handle(ctx context.Context, c *http.Client, r *http.Request) (*http.Response, error) {
	h.mu.Lock()
	h.seen = append(h.seen, r.Method+" "+r.URL.Path+" before="+r.Header.Get("X-Before")+" static="+r.Header.Get("X-Static"))
	h.mu.Unlock()
	return c.Do(r)
}

func TestGovcScenarioClientCustomisation(t *testing.T) {
	var serverSaw []string
	var mu sync.Mutex
	ts := httptest.NewServer(http.HandlerFunc(func(w http.ResponseWriter, r *http.Request) {
		mu.Lock()
		serverSaw = append(serverSaw, r.Method+" "+r.URL.Path+" before="+r.Header.Get("X-Before")+" static="+r.Header.Get("X-Static"))
		mu.Unlock()
		w.Header().Set("Mcp-Session-Id", "0123456789abcdef0123456789abcdef")
		switch r.Method {
		case http.MethodPost:
			buf := make([]byte, 1<<16)
			n, _ := r.Body.Read(buf)
			body := string(buf[:n])
			if !strings.Contains(body, `"id"`) || !strings.Contains(body, `"method"`) {
				w.WriteHeader(202)
				return
			}
			var id int
			fmt.Sscanf(body[strings.Index(body, `"id":`)+5:], "%d", &id)
			w.Header().Set("Content-Type", "application/json")
			fmt.Fprintf(w, `{"jsonrpc":"2.0","id":%d,"result":{"protocolVersion":"2025-03-26","capabilities":{},"serverInfo":{"name":"s","version":"1"},"tools":[]}}`, id)
		case http.MethodDelete:
			w.WriteHeader(200)
		default:
			w.WriteHeader(405)
		}
	}))
	defer ts.Close()
	rh := &recordingHandler{}
	hdr := http.Header{}
	hdr.Set("X-Static", "yes")
	c, err := NewClient(ts.URL, Implementation{Name: "c", Version: "1"},
		WithClientPath("/custom"), WithHTTPHeaders(hdr), WithHTTPReqHandler(rh), WithClientGetSSEEnabled(false),
		WithHTTPBeforeRequest(func(ctx context.Context, r *http.Request) error { r.Header.Add("X-Before", "1"); return nil }))
	if err != nil {
		t.Fatal(err)
	}
	if _, err := c.Initialize(context.Background(), &InitializeRequest{}); err != nil {
		t.Fatalf("initialize: %v", err)
	}
	c.ListTools(context.Background(), &ListToolsRequest{})
	tr := c.transport.(*streamableHTTPClientTransport)
	tr.sendResponseToServer(map[string]interface{}{"jsonrpc": "2.0", "id": 1, "result": map[string]interface{}{"roots": []interface{}{}}})
	c.TerminateSession(context.Background())
	mu.Lock()
	defer mu.Unlock()
	rh.mu.Lock()
	defer rh.mu.Unlock()
	for _, s := range serverSaw {
		if !strings.Contains(s, " /custom ") || !strings.Contains(s, "before=1") || !strings.Contains(s, "static=yes") {
			t.Fatalf("GOVC-VIOLATED: a request reached the server without the configured path / before-request mark / static header: %q (all: %q)", s, serverSaw)
		}
	}
	if len(rh.seen) != len(serverSaw) {
		t.Fatalf("GOVC-VIOLATED: %d requests reached the server but only %d went through the configured request handler (server saw %q, handler saw %q)", len(serverSaw), len(rh.seen), serverSaw, rh.seen)
	}
}
