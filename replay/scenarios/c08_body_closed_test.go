package mcp

// Scenario replay for C08: the body of a POST-SSE response must be closed when the call returns.

import (
	"context"
	"fmt"
	"io"
	"net/http"
	"net/http/httptest"
	"strings"
	"sync/atomic"
	"testing"
)

type closeTrackingBody struct {
	io.ReadCloser
	closed *int32
}

func (b closeTrackingBody) Close() error { atomic.AddInt32(b.closed, 1); return b.ReadCloser.Close() }

type trackingHandler struct{ opened, closed int32 }

func (h *trackingHandler) Handle(ctx context.Context, c *http.Client, r *http.Request) (*http.Response, error) {
	resp, err := c.Do(r)
	if err == nil {
		atomic.AddInt32(&h.opened, 1)
		resp.Body = closeTrackingBody{resp.Body, &h.closed}
	}
	return resp, err
}

func TestGovcScenarioSSEResponseBodyClosed(t *testing.T) {
	ts := httptest.NewServer(http.HandlerFunc(func(w http.ResponseWriter, r *http.Request) {
		buf := make([]byte, 1<<16)
		n, _ := r.Body.Read(buf)
		body := string(buf[:n])
		if !strings.Contains(body, `"id"`) {
			w.WriteHeader(202)
			return
		}
		var id int
		fmt.Sscanf(body[strings.Index(body, `"id":`)+5:], "%d", &id)
		w.Header().Set("Content-Type", "text/event-stream")
		fmt.Fprintf(w, "id: e1\ndata: {\"jsonrpc\":\"2.0\",\"id\":%d,\"result\":{\"protocolVersion\":\"2025-03-26\",\"capabilities\":{},\"serverInfo\":{\"name\":\"s\",\"version\":\"1\"},\"tools\":[]}}\n\n", id)
	}))
	defer ts.Close()
	th := &trackingHandler{}
	c, err := NewClient(ts.URL, Implementation{Name: "c", Version: "1"}, WithHTTPReqHandler(th), WithClientGetSSEEnabled(false))
	if err != nil {
		t.Fatal(err)
	}
	if _, err := c.Initialize(context.Background(), &InitializeRequest{}); err != nil {
		t.Fatalf("initialize: %v", err)
	}
	for i := 0; i < 3; i++ {
		c.ListTools(context.Background(), &ListToolsRequest{})
	}
	if o, cl := atomic.LoadInt32(&th.opened), atomic.LoadInt32(&th.closed); cl < o {
		t.Fatalf("GOVC-VIOLATED: %d responses were obtained but only %d bodies were closed when the calls had returned (SSE responses are never closed)", o, cl)
	}
}
