package mcp

// Scenario replay for C07: one hostile frame must not make later calls fail.

import (
	"context"
	"fmt"
	"net/http"
	"net/http/httptest"
	"strings"
	"testing"
	"time"
)

// A single SSE frame whose id: line carries a control character must not poison later calls.
func TestGovcScenarioHostileEventID(t *testing.T) {
	n := 0
	ts := httptest.NewServer(http.HandlerFunc(func(w http.ResponseWriter, r *http.Request) {
		buf := make([]byte, 1<<16)
		k, _ := r.Body.Read(buf)
		body := string(buf[:k])
		if !strings.Contains(body, `"id"`) {
			w.WriteHeader(202)
			return
		}
		var id int
		fmt.Sscanf(body[strings.Index(body, `"id":`)+5:], "%d", &id)
		n++
		w.Header().Set("Content-Type", "text/event-stream")
		evid := fmt.Sprintf("e%d", n)
		if n == 2 {
			evid = "bad\x01id"
		}
		fmt.Fprintf(w, "id: %s\ndata: {\"jsonrpc\":\"2.0\",\"id\":%d,\"result\":{\"protocolVersion\":\"2025-03-26\",\"capabilities\":{},\"serverInfo\":{\"name\":\"s\",\"version\":\"1\"},\"tools\":[]}}\n\n", evid, id)
	}))
	defer ts.Close()
	c, err := NewClient(ts.URL, Implementation{Name: "c", Version: "1"}, WithClientGetSSEEnabled(false))
	if err != nil {
		t.Fatal(err)
	}
	ctx, cancel := context.WithTimeout(context.Background(), 5*time.Second)
	defer cancel()
	if _, err := c.Initialize(ctx, &InitializeRequest{}); err != nil {
		t.Fatalf("initialize: %v", err)
	}
	if _, err := c.ListTools(ctx, &ListToolsRequest{}); err != nil {
		t.Fatalf("the call that received the odd event id failed: %v", err)
	}
	for i := 0; i < 3; i++ {
		if _, err := c.ListTools(ctx, &ListToolsRequest{}); err != nil {
			t.Fatalf("GOVC-VIOLATED: after one frame with a control character in its id line, a later well-formed call fails: %v", err)
		}
	}
}
