package mcp

// Scenario replay for C19 (session id): a server that issues the session id in
// its answer to the initialized notification; every later request must carry it.

import (
	"context"
	"fmt"
	"net/http"
	"net/http/httptest"
	"strings"
	"sync"
	"testing"
)

func TestGovcScenarioSessionIDIssuedLate(t *testing.T) {
	var mu sync.Mutex
	var later []string
	issued := false
	ts := httptest.NewServer(http.HandlerFunc(func(w http.ResponseWriter, r *http.Request) {
		buf := make([]byte, 1<<16)
		n, _ := r.Body.Read(buf)
		body := string(buf[:n])
		mu.Lock()
		if issued {
			later = append(later, r.Header.Get("Mcp-Session-Id"))
		}
		mu.Unlock()
		if !strings.Contains(body, `"id"`) {
			w.Header().Set("Mcp-Session-Id", "0123456789abcdef0123456789abcdef")
			mu.Lock()
			issued = true
			mu.Unlock()
			w.WriteHeader(202)
			return
		}
		var id int
		fmt.Sscanf(body[strings.Index(body, `"id":`)+5:], "%d", &id)
		w.Header().Set("Content-Type", "application/json")
		fmt.Fprintf(w, `{"jsonrpc":"2.0","id":%d,"result":{"protocolVersion":"2025-03-26","capabilities":{},"serverInfo":{"name":"s","version":"1"},"tools":[]}}`, id)
	}))
	defer ts.Close()
	c, err := NewClient(ts.URL, Implementation{Name: "c", Version: "1"}, WithClientGetSSEEnabled(false))
	if err != nil {
		t.Fatal(err)
	}
	if _, err := c.Initialize(context.Background(), &InitializeRequest{}); err != nil {
		t.Fatalf("initialize: %v", err)
	}
	c.ListTools(context.Background(), &ListToolsRequest{})
	c.ListTools(context.Background(), &ListToolsRequest{})
	mu.Lock()
	defer mu.Unlock()
	for _, sid := range later {
		if sid != "0123456789abcdef0123456789abcdef" {
			t.Fatalf("GOVC-VIOLATED: a request sent after the session id had been issued did not carry it (ids seen on later requests: %q)", later)
		}
	}
	if len(later) == 0 {
		t.Fatalf("scenario did not run")
	}
}
