package mcp

import (
	"encoding/json"
	"context"
	"fmt"
	"io"
	"net/http"
	"net/http/httptest"
	"strings"
	"sync/atomic"
	"testing"
	"time"
)

// stdio client: one non-JSON line on the server's stdout, then a valid answer.
func TestGovcScenarioStdioGarbageLine(t *testing.T) {
	pr, pw := io.Pipe()
	tr := newStdioClientTransport(StdioServerParameters{Command: "true"})
	tr.stdout = pr
	var logs int64
	tr.logger = countingLogger{&logs}
	tr.decoder = json.NewDecoder(pr)
	go tr.readLoop()
	go func() {
		io.WriteString(pw, "this is not json\n")
		io.WriteString(pw, `{"jsonrpc":"2.0","method":"notifications/message","params":{"level":"info","data":"x"}}`+"\n")
	}()
	got := make(chan struct{}, 1)
	tr.registerNotificationHandler("notifications/message", func(n *JSONRPCNotification) error { got <- struct{}{}; return nil })
	select {
	case <-got:
	case <-time.After(2 * time.Second):
		t.Fatalf("GOVC-VIOLATED: stdio client stopped processing frames after one non-JSON line (error log lines: %d)", atomic.LoadInt64(&logs))
	}
	if n := atomic.LoadInt64(&logs); n > 1000 {
		t.Fatalf("GOVC-VIOLATED: stdio client spins on a non-JSON line (%d error log lines)", n)
	}
	tr.closed.Store(true)
	pw.Close()
}

// streamable client listening stream: one event larger than 64 KiB, then a small notification.
func TestGovcScenarioGetSSEGiantEvent(t *testing.T) {
	big := strings.Repeat("x", 200*1024)
	srv := httptest.NewServer(http.HandlerFunc(func(w http.ResponseWriter, r *http.Request) {
		if r.Method != http.MethodGet {
			w.WriteHeader(202)
			return
		}
		w.Header().Set("Content-Type", "text/event-stream")
		w.WriteHeader(200)
		fmt.Fprintf(w, "data: {\"jsonrpc\":\"2.0\",\"method\":\"notifications/message\",\"params\":{\"level\":\"info\",\"data\":%q}}\n\n", big)
		fmt.Fprintf(w, "data: {\"jsonrpc\":\"2.0\",\"method\":\"notifications/progress\",\"params\":{\"progress\":1}}\n\n")
		w.(http.Flusher).Flush()
		<-r.Context().Done()
	}))
	defer srv.Close()
	c, err := NewClient(srv.URL, Implementation{Name: "x", Version: "1"})
	if err != nil {
		t.Fatal(err)
	}
	tr := c.transport.(*streamableHTTPClientTransport)
	tr.sessionID = "session-1"
	got := make(chan struct{}, 1)
	tr.registerNotificationHandler("notifications/progress", func(n *JSONRPCNotification) error { got <- struct{}{}; return nil })
	ctx, cancel := context.WithTimeout(context.Background(), 3*time.Second)
	defer cancel()
	go tr.connectGetSSE(ctx)
	select {
	case <-got:
	case <-time.After(2 * time.Second):
		t.Fatalf("GOVC-VIOLATED: listening stream stopped at an event larger than 64 KiB; the following notification was never delivered")
	}
}

type countingLogger struct{ n *int64 }

func (l countingLogger) Debug(args ...interface{})                 {}
func (l countingLogger) Debugf(format string, args ...interface{}) {}
func (l countingLogger) Info(args ...interface{})                  {}
func (l countingLogger) Infof(format string, args ...interface{})  {}
func (l countingLogger) Warn(args ...interface{})                  {}
func (l countingLogger) Warnf(format string, args ...interface{})  {}
func (l countingLogger) Error(args ...interface{})                 { atomic.AddInt64(l.n, 1) }
func (l countingLogger) Errorf(format string, args ...interface{}) { atomic.AddInt64(l.n, 1) }
func (l countingLogger) Fatal(args ...interface{})                 {}
func (l countingLogger) Fatalf(format string, args ...interface{}) {}
