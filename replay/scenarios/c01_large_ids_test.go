package mcp

// Scenario replay for C01: integer request ids up to 2^53 are matched with their answers.

import (
	"context"
	"net/http/httptest"
	"testing"
	"time"
)

func TestGovcScenarioLargeIntegerIDs(t *testing.T) {
	srv := NewServer("s", "1", WithPostSSEEnabled(true))
	srv.RegisterTool(NewTool("echo"), func(ctx context.Context, req *CallToolRequest) (*CallToolResult, error) {
		return NewTextResult("pong"), nil
	})
	ts := httptest.NewServer(srv.HTTPHandler())
	defer ts.Close()
	c, err := NewClient(ts.URL+"/mcp", Implementation{Name: "c", Version: "1"}, WithClientGetSSEEnabled(false))
	if err != nil {
		t.Fatal(err)
	}
	defer c.Close()
	ctx, cancel := context.WithTimeout(context.Background(), 5*time.Second)
	defer cancel()
	if _, err := c.Initialize(ctx, &InitializeRequest{}); err != nil {
		t.Fatalf("initialize: %v", err)
	}
	for _, start := range []int64{41, 999_998, 1 << 40, 1<<53 - 3} {
		c.requestID.Store(start)
		for i := 0; i < 3; i++ {
			res, err := c.CallTool(ctx, &CallToolRequest{Params: CallToolParams{Name: "echo"}})
			if err != nil || len(res.Content) == 0 {
				t.Fatalf("GOVC-VIOLATED: the call with request id %d did not get its answer: %v", c.requestID.Load(), err)
			}
		}
	}
}
