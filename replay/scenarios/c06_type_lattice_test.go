package mcp

// Scenario replay for C06 type-assertion obligations: every served method is
// called on the real handler with every JSON type in params and in each known
// params field.  A panic is the violation.

import (
	"context"
	"encoding/json"
	"fmt"
	"testing"
)

func TestGovcScenarioTypeLattice(t *testing.T) {
	srv := NewServer("s", "1", WithServerAddress("127.0.0.1:0"))
	srv.RegisterTool(NewTool("t"), func(ctx context.Context, r *CallToolRequest) (*CallToolResult, error) {
		return NewTextResult("ok"), nil
	})
	h := srv.mcpHandler
	jsonVals := []string{`null`, `true`, `7`, `1.5`, `"s"`, `[]`, `[1]`, `{}`, `{"x":1}`}
	methods := []string{MethodInitialize, MethodPing, MethodToolsList, MethodToolsCall, MethodResourcesList, MethodResourcesRead,
		MethodResourcesTemplatesList, MethodResourcesSubscribe, MethodResourcesUnsubscribe, MethodPromptsList, MethodPromptsGet, MethodCompletionComplete, "nope"}
	fields := []string{"protocolVersion", "name", "arguments", "uri", "ref", "argument", "capabilities", "clientInfo", "cursor", "_meta"}
	try := func(method, params string) {
		defer func() {
			if r := recover(); r != nil {
				t.Fatalf("GOVC-VIOLATED: server panics on method=%s params=%s: %v", method, params, r)
			}
		}()
		var p interface{}
		if err := json.Unmarshal([]byte(params), &p); err != nil {
			return
		}
		req := &JSONRPCRequest{JSONRPC: "2.0", ID: float64(1), Params: p, Request: Request{Method: method}}
		h.handleRequest(context.Background(), req, newSession())
	}
	for _, m := range methods {
		for _, v := range jsonVals {
			try(m, v)
			for _, f := range fields {
				try(m, fmt.Sprintf(`{%q:%s}`, f, v))
				try(m, fmt.Sprintf(`{"protocolVersion":"2025-03-26","name":"t","uri":"u",%q:%s}`, f+"2", v))
				if f != "name" {
					try(m, fmt.Sprintf(`{"name":"t",%q:%s}`, f, v))
				}
			}
		}
	}
}
