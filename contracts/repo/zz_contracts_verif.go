//go:build verif

// Contracts for package mcp.  Comment-only file: part of the build only under
// the tag "verif", contains no code.  Checked by /verif/govc on every run
// against the current source of this package.

package mcp

// ---------------------------------------------------------------------------
// jsonrpc.go — message constructors (used by every handler contract; C03)

//@ func newJSONRPCResponse
//@   pure
//@   ensures ret != nil && ret.JSONRPC == "2.0" && ret.ID == id && ret.Result == result
//@ func newJSONRPCErrorResponse
//@   pure
//@   ensures result != nil && result.JSONRPC == "2.0" && result.ID == id && result.Error.Code == code && result.Error.Message == message && result.Error.Data == data
//@ func newJSONRPCNotification
//@   pure
//@   ensures result != nil && result.JSONRPC == "2.0" && result.Notification.Method == notification.Method

//@ pred inslice(s []string, x string) = exists i int :: 0 <= i && i < len(s) && s[i] == x

// ---------------------------------------------------------------------------
// manager_lifecycle.go — C16 (version negotiation, advertised capabilities)

//@ type lifecycleManager
//@   ctor newLifecycleManager, withProtocolVersion, withSupportedVersions
//@   final[C16] supportedVersions, defaultProtocolVersion
//@   invariant[C16 default-version-is-supported] inslice(self.supportedVersions, self.defaultProtocolVersion)
//@
//@ func lifecycleManager.withProtocolVersion
//@   requires[C16] inslice(m.supportedVersions, version)
//@ func lifecycleManager.withSupportedVersions
//@   requires[C16] inslice(versions, m.defaultProtocolVersion)
//@
//@ func lifecycleManager.selectSupportedVersion
//@   pure
//@   ensures[C16 requested-version-when-supported] inslice(m.supportedVersions, protocolVersion) ==> result == protocolVersion
//@   ensures[C16 default-version-otherwise] !inslice(m.supportedVersions, protocolVersion) ==> result == m.defaultProtocolVersion
//@   ensures[C16 never-an-unsupported-version] inslice(m.supportedVersions, result)
//@   loop 1 invariant[C16] forall j int :: 0 <= j && j <= rangeindex ==> m.supportedVersions[j] != protocolVersion
//@   loop 1 invariant[C16] 0 - 1 <= rangeindex && rangeindex < len(m.supportedVersions)
//@
//@ type promptManager
//@   guarded[C12,C20] prompts, promptsOrder by mu
//@ func promptManager.getPrompts
//@   pure
//@   loop 1 invariant[C16,C12] len(prompts) == yielded(1)
//@   ensures[C16,C12 one-entry-per-registered-prompt] len(result) == len(m.prompts)
//@
//@ type resourceManager
//@   guarded[C12,C20] resources, resourcesOrder, templates by mu
//@   invariant[C16,C12 every-ordered-uri-is-registered] forall i int :: 0 <= i && i < len(self.resourcesOrder) ==> self.resourcesOrder[i] in self.resources
//@ func resourceManager.getResources
//@   pure
//@   loop 1 invariant[C16,C12] 0 - 1 <= rangeindex && rangeindex < len(m.resourcesOrder) && len(orderedResources) == rangeindex + 1
//@   ensures[C16,C12 one-entry-per-registered-resource] len(result) == len(m.resourcesOrder)
//@
//@ func lifecycleManager.updateCapabilities
//@   modifies m.capabilities
//@   ensures[C16 tools-capability-always] istype(m.capabilities["tools"], map[string]interface{})
//@   ensures[C16 resources-capability-iff-a-resource-is-registered] istype(m.capabilities["resources"], map[string]interface{}) <==> (m.resourceManager != nil && len(m.resourceManager.resourcesOrder) > 0)
//@   ensures[C16 prompts-capability-iff-a-prompt-is-registered] ("prompts" in m.capabilities) <==> (m.promptManager != nil && len(m.promptManager.prompts) > 0)
//@
//@ func convertToServerCapabilities
//@   pure
//@   ensures[C16 tools-advertised] (result.Tools != nil) <==> istype(capMap["tools"], map[string]interface{})
//@   ensures[C16 resources-advertised] (result.Resources != nil) <==> istype(capMap["resources"], map[string]interface{})
//@   ensures[C16 prompts-advertised] (result.Prompts != nil) <==> ("prompts" in capMap)
//@
//@ func lifecycleManager.buildInitializeResponse
//@   pure
//@   ensures[C16 echoes-negotiated-version] result.ProtocolVersion == protocolVersion
//@   ensures[C16 configured-name-and-version] result.ServerInfo.Name == m.serverInfo.Name && result.ServerInfo.Version == m.serverInfo.Version
//@   ensures[C16] (result.Capabilities.Tools != nil) <==> istype(m.capabilities["tools"], map[string]interface{})
//@   ensures[C16] (result.Capabilities.Resources != nil) <==> istype(m.capabilities["resources"], map[string]interface{})
//@   ensures[C16] (result.Capabilities.Prompts != nil) <==> ("prompts" in m.capabilities)
//@
//@ pred initParamsOK(req *JSONRPCRequest) = istype(req.Params, map[string]interface{}) && istype(req.Params.(map[string]interface{})["protocolVersion"], string)
//@
//@ func lifecycleManager.handleInitialize
//@   ensures[C16] result1 == nil
//@   ensures[C16 answers-with-a-supported-version] initParamsOK(req) ==> istype(result, InitializeResult) && inslice(m.supportedVersions, result.(InitializeResult).ProtocolVersion)
//@   ensures[C16 answers-with-the-requested-version-when-supported] initParamsOK(req) && inslice(m.supportedVersions, req.Params.(map[string]interface{})["protocolVersion"].(string)) ==> result.(InitializeResult).ProtocolVersion == req.Params.(map[string]interface{})["protocolVersion"].(string)
//@   ensures[C16 answers-with-configured-identity] initParamsOK(req) ==> result.(InitializeResult).ServerInfo.Name == m.serverInfo.Name && result.(InitializeResult).ServerInfo.Version == m.serverInfo.Version
//@   ensures[C16 tools-capability-always-advertised] initParamsOK(req) ==> result.(InitializeResult).Capabilities.Tools != nil
//@   ensures[C16 prompts-capability-iff-registered] initParamsOK(req) ==> ((result.(InitializeResult).Capabilities.Prompts != nil) <==> (m.promptManager != nil && len(m.promptManager.prompts) > 0))
//@   ensures[C16 resources-capability-iff-registered] initParamsOK(req) ==> ((result.(InitializeResult).Capabilities.Resources != nil) <==> (m.resourceManager != nil && len(m.resourceManager.resourcesOrder) > 0))
//@   ensures[C16,C03 bad-params-are-invalid-params] !initParamsOK(req) ==> istype(result, *JSONRPCError) && result.(*JSONRPCError).Error.Code == ErrCodeInvalidParams && result.(*JSONRPCError).ID == req.ID

// ---------------------------------------------------------------------------
// client.go — C16 (client state machine).  netops counts operations handed to
// the transport: "without touching the network" is netops unchanged.

//@ ghost netops int
//@
//@ type Client
//@   private[C16] initialized, state writers Initialize, Close, setState
//@   invariant[C16 initialized-iff-state-initialized] self.initialized <==> self.state == StateInitialized
//@
//@ func transport.sendRequest
//@   modifies *
//@   ensures netops == old(netops) + 1
//@ func transport.sendNotification
//@   modifies *
//@   ensures netops == old(netops) + 1
//@ func transport.sendResponse
//@   modifies *
//@   ensures netops == old(netops) + 1
//@ func httpTransport.terminateSession
//@   modifies *
//@   ensures netops == old(netops) + 1
//@ func transport.close
//@   modifies *
//@   ensures netops == old(netops)
//@
//@ func Client.Initialize
//@   ensures[C16 second-handshake-refused-without-network] old(c.initialized) ==> ret1 == errors.ErrAlreadyInitialized && ret == nil && netops == old(netops) && c.initialized
//@   ensures[C16 failed-handshake-leaves-client-uninitialized] !old(c.initialized) && ret1 != nil ==> !c.initialized && c.state == StateDisconnected
//@   ensures[C16 successful-handshake-initializes] ret1 == nil ==> c.initialized && c.state == StateInitialized
//@ func Client.Close
//@   ensures[C16 uninitialized-after-close] c.transport != nil ==> !c.initialized && c.state == StateDisconnected
//@ func Client.ListTools
//@   ensures[C16 no-operation-before-handshake] !old(c.initialized) ==> ret1 != nil && ret == nil && netops == old(netops)
//@ func Client.CallTool
//@   ensures[C16 no-operation-before-handshake] !old(c.initialized) ==> ret1 != nil && ret == nil && netops == old(netops)
//@ func Client.ListPrompts
//@   ensures[C16 no-operation-before-handshake] !old(c.initialized) ==> ret1 != nil && ret == nil && netops == old(netops)
//@ func Client.GetPrompt
//@   ensures[C16 no-operation-before-handshake] !old(c.initialized) ==> ret1 != nil && ret == nil && netops == old(netops)
//@ func Client.ListResources
//@   ensures[C16 no-operation-before-handshake] !old(c.initialized) ==> ret1 != nil && ret == nil && netops == old(netops)
//@ func Client.ReadResource
//@   ensures[C16 no-operation-before-handshake] !old(c.initialized) ==> ret1 != nil && ret == nil && netops == old(netops)
//@ func Client.SendRootsListChangedNotification
//@   ensures[C16 no-operation-before-handshake] !old(c.initialized) ==> ret != nil && netops == old(netops)
//@ func Client.setState
//@   helper
//@   inline
//@ func Client.GetState
//@   pure
//@   ensures[C16 reports-the-state] result == c.state

// ---------------------------------------------------------------------------
// stdio_client.go — C16 (same state machine over atomic.Bool / atomic.Value)

//@ pred stdioStateIs(c *StdioClient, s State) = istype(c.state, State) && c.state.(State) == s
//@
//@ type StdioClient
//@   private[C16] initialized, state writers Initialize, Close, setState
//@   invariant[C16 initialized-iff-state-initialized] self.initialized <==> stdioStateIs(self, StateInitialized)
//@   invariant[C16 state-cell-holds-a-state] isnil(self.state) || istype(self.state, State)
//@
//@ func stdioClientTransport.sendRequest
//@   trusted
//@   modifies *
//@   ensures netops == old(netops) + 1
//@ func stdioClientTransport.sendNotification
//@   trusted
//@   modifies *
//@   ensures netops == old(netops) + 1
//@ func stdioClientTransport.close
//@   trusted
//@   modifies *
//@   ensures netops == old(netops)
//@
//@ func StdioClient.setState
//@   helper
//@   inline
//@ func StdioClient.Initialize
//@   ensures[C16 second-handshake-refused-without-network] old(c.initialized) ==> ret1 != nil && ret == nil && netops == old(netops) && c.initialized
//@   ensures[C16 failed-handshake-leaves-client-uninitialized] !old(c.initialized) && ret1 != nil ==> !c.initialized && stdioStateIs(c, StateDisconnected)
//@   ensures[C16 successful-handshake-initializes] ret1 == nil ==> c.initialized && stdioStateIs(c, StateInitialized)
//@ func StdioClient.Close
//@   ensures[C16 uninitialized-after-close] c.transport != nil ==> !c.initialized && stdioStateIs(c, StateDisconnected)
//@ func StdioClient.GetState
//@   pure
//@   ensures[C16 reports-the-state] istype(c.state, State) ==> result == c.state.(State)
//@   ensures[C16 disconnected-when-never-set] isnil(c.state) ==> result == StateDisconnected
//@   sweep[C16] typeassert
//@ func StdioClient.ListTools
//@   ensures[C16 no-operation-before-handshake] !old(c.initialized) ==> ret1 != nil && ret == nil && netops == old(netops)
//@ func StdioClient.CallTool
//@   ensures[C16 no-operation-before-handshake] !old(c.initialized) ==> ret1 != nil && ret == nil && netops == old(netops)
//@ func StdioClient.ListPrompts
//@   ensures[C16 no-operation-before-handshake] !old(c.initialized) ==> ret1 != nil && ret == nil && netops == old(netops)
//@ func StdioClient.GetPrompt
//@   ensures[C16 no-operation-before-handshake] !old(c.initialized) ==> ret1 != nil && ret == nil && netops == old(netops)
//@ func StdioClient.ListResources
//@   ensures[C16 no-operation-before-handshake] !old(c.initialized) ==> ret1 != nil && ret == nil && netops == old(netops)
//@ func StdioClient.ReadResource
//@   ensures[C16 no-operation-before-handshake] !old(c.initialized) ==> ret1 != nil && ret == nil && netops == old(netops)
//@ func StdioClient.SendRootsListChangedNotification
//@   ensures[C16 no-operation-before-handshake] !old(c.initialized) ==> ret != nil && netops == old(netops)
