package main

// Integer <-> float64 conversions.  The solvers stall on goals that mix Int and
// FloatingPoint through to_real/to_fp, so the two conversions are uninterpreted
// functions constrained by instances of true facts about IEEE-754 conversion:
// round-to-nearest-even int->float is monotone, truncation float->int is
// monotone, both are exact on exactly representable anchors.  Every instance is
// a theorem about the real conversion, so the encoding over-approximates it.

import (
	"fmt"
	"math"
	"math/big"
	"sort"
)

func (f *FnCtx) anchorInts() []*big.Int {
	if f.anchors != nil {
		return f.anchors
	}
	set := map[string]*big.Int{}
	add := func(s string) {
		b, ok := new(big.Int).SetString(s, 10)
		if ok {
			set[b.String()] = b
		}
	}
	for _, s := range []string{"0", "1", "-1", "9007199254740992", "-9007199254740992", "9223372036854775808", "-9223372036854775808", "2147483648", "-2147483648", "4294967296", "18446744073709551616"} {
		add(s)
	}
	for _, sf := range f.e.specs.files {
		collect := func(e Expr) {
			walkExpr(e, func(x Expr) {
				if n, ok := x.(*EInt); ok {
					add(n.V)
				}
			})
		}
		for _, p := range sf.Preds {
			collect(p.Body)
		}
		for _, fn := range sf.Funcs {
			for _, c := range fn.Requires {
				collect(c.E)
			}
			for _, c := range fn.Ensures {
				collect(c.E)
			}
		}
	}
	var out []*big.Int
	for _, b := range set {
		out = append(out, b)
	}
	sort.Slice(out, func(i, j int) bool { return out[i].Cmp(out[j]) < 0 })
	if len(out) > 40 {
		// keep the extremes and the smallest magnitudes
		sort.Slice(out, func(i, j int) bool { return out[i].CmpAbs(out[j]) < 0 })
		keep := out[:30]
		keep = append(keep, out[len(out)-10:]...)
		out = keep
	}
	f.anchors = out
	return out
}

func bigToFloat(b *big.Int) (float64, bool) {
	fl, acc := new(big.Float).SetInt(b).Float64() // rounds to nearest even
	_ = acc
	back, _ := new(big.Float).SetFloat64(fl).Int(nil)
	return fl, back != nil && back.Cmp(b) == 0 && !math.IsInf(fl, 0)
}

// i2f: float64(x) for an integer term x.
func (f *FnCtx) i2f(x string) string {
	if t, ok := f.convMemo["i2f "+x]; ok {
		return t
	}
	f.c.declFun("i2f", []string{sortInt}, sortFloat)
	t := app("i2f", x)
	if f.convMemo == nil {
		f.convMemo = map[string]string{}
	}
	f.convMemo["i2f "+x] = t
	var facts []string
	facts = append(facts, not(app("fp.isNaN", t)))
	facts = append(facts, implies(and(app("<=", "(- 18446744073709551616)", x), app("<=", x, "18446744073709551616")), not(app("fp.isInfinite", t))))
	for _, c := range f.anchorInts() {
		fl, exact := bigToFloat(c)
		lit := floatLit(fl)
		cs := bigIntLit(c.String())
		facts = append(facts, implies(app("<=", x, cs), app("fp.leq", t, lit)))
		facts = append(facts, implies(app(">=", x, cs), app("fp.geq", t, lit)))
		if exact {
			facts = append(facts, implies(eq(x, cs), eq(t, lit)))
			facts = append(facts, implies(app("<", x, cs), app("fp.leq", t, lit)))
		}
	}
	f.global = append(f.global, facts...)
	f.i2fArgs = append(f.i2fArgs, x)
	for _, fl := range f.f2iArgs {
		f.crossFacts(x, fl)
	}
	return t
}

// crossFacts: for |x| <= 2^53 the conversion i2f(x) is exact, and truncation is
// monotone, so comparisons against i2f(x) carry over to f2i.
func (f *FnCtx) crossFacts(x, fl string) {
	small := and(app("<=", "(- 9007199254740992)", x), app("<=", x, "9007199254740992"))
	ix, tf := app("i2f", x), app("f2i", fl)
	f.global = append(f.global,
		implies(and(small, app("fp.leq", fl, ix)), app("<=", tf, x)),
		implies(and(small, app("fp.geq", fl, ix)), app(">=", tf, x)),
		implies(and(small, app("fp.eq", fl, ix)), eq(tf, x)))
}

// f2i: mathematical truncation toward zero of a float term, as an Int
// (meaningful only for finite arguments).
func (f *FnCtx) f2i(fl string) string {
	if t, ok := f.convMemo["f2i "+fl]; ok {
		return t
	}
	f.c.declFun("f2i", []string{sortFloat}, sortInt)
	t := app("f2i", fl)
	if f.convMemo == nil {
		f.convMemo = map[string]string{}
	}
	f.convMemo["f2i "+fl] = t
	var facts []string
	for _, c := range f.anchorInts() {
		v, exact := bigToFloat(c)
		if !exact {
			continue
		}
		lit := floatLit(v)
		cs := bigIntLit(c.String())
		facts = append(facts, implies(app("fp.leq", fl, lit), app("<=", t, cs)))
		facts = append(facts, implies(app("fp.geq", fl, lit), app(">=", t, cs)))
		if c.Sign() > 0 {
			facts = append(facts, implies(app("fp.lt", fl, lit), app("<=", t, bigIntLit(new(big.Int).Sub(c, big.NewInt(1)).String()))))
		}
		if c.Sign() < 0 {
			facts = append(facts, implies(app("fp.gt", fl, lit), app(">=", t, bigIntLit(new(big.Int).Add(c, big.NewInt(1)).String()))))
		}
	}
	f.global = append(f.global, facts...)
	f.f2iArgs = append(f.f2iArgs, fl)
	for _, x := range f.i2fArgs {
		f.crossFacts(x, fl)
	}
	return t
}

var _ = fmt.Sprint
