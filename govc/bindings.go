package main

// Rename robustness.  Contracts name parameters and local variables of the functions they
// are attached to.  A harmless rename would make such a clause stale.  `govc bindings`
// (run when contracts are written, never by a check) records for every function under
// contract the position of each parameter and a structural descriptor of each named
// local: the kind and type of the first value bound to the name and its ordinal among
// the function's values of that kind and type.  When a check meets a recorded name that
// the function no longer has, it looks for the variable with the same descriptor and
// uses it under the old name.  Names that still exist are never rebound.

import (
	"encoding/json"
	"flag"
	"fmt"
	"go/types"
	"os"
	"regexp"
	"sort"
	"strings"

	"golang.org/x/tools/go/ssa"
)

type fnBindings struct {
	Params []string          `json:"params"`
	Locals map[string]string `json:"locals"`
}

const bindingsPath = "/verif/contracts/bindings.json"

func loadBindings() map[string]*fnBindings {
	out := map[string]*fnBindings{}
	data, err := os.ReadFile(bindingsPath)
	if err != nil {
		return out
	}
	json.Unmarshal(data, &out)
	return out
}

// valueDescriptors: descriptor of every value-defining instruction of fn.
func valueDescriptors(fn *ssa.Function) map[ssa.Value]string {
	type item struct {
		v   ssa.Value
		key string
	}
	var items []item
	for _, b := range fn.Blocks {
		for _, in := range b.Instrs {
			v, ok := in.(ssa.Value)
			if !ok {
				continue
			}
			items = append(items, item{v, fmt.Sprintf("%T|%s", in, v.Type().String())})
		}
	}
	sort.SliceStable(items, func(i, j int) bool {
		pi, pj := items[i].v.Pos(), items[j].v.Pos()
		return pi < pj
	})
	cnt := map[string]int{}
	out := map[ssa.Value]string{}
	for _, it := range items {
		cnt[it.key]++
		out[it.v] = fmt.Sprintf("%s#%d", it.key, cnt[it.key])
	}
	return out
}

// localDescriptors: name -> descriptor of the first value bound to the name.
func localDescriptors(fn *ssa.Function) map[string]string {
	desc := valueDescriptors(fn)
	type first struct {
		d string
		p int
	}
	best := map[string]first{}
	note := func(name string, v ssa.Value, isAddr bool, pos int) {
		d, ok := desc[v]
		if !ok {
			return
		}
		if isAddr {
			d = "&" + d
		}
		if b, have := best[name]; !have || pos < b.p {
			best[name] = first{d, pos}
		}
	}
	for _, b := range fn.Blocks {
		for _, in := range b.Instrs {
			switch x := in.(type) {
			case *ssa.DebugRef:
				if n := debugRefName(x); n != "" {
					note(n, x.X, x.IsAddr, int(x.Pos()))
				}
			case *ssa.Phi:
				if isIdentName(x.Comment) && x.Comment != "rangeindex" {
					note(x.Comment, x, false, int(x.Pos()))
				}
			}
		}
	}
	out := map[string]string{}
	for n, b := range best {
		out[n] = b.d
	}
	return out
}

func cmdBindings(args []string) int {
	fs := flag.NewFlagSet("bindings", flag.ExitOnError)
	repo := fs.String("repo", "/repo", "repository")
	fs.Parse(args)
	e, err := loadEngine(*repo, "/verif/contracts/repo")
	if err != nil {
		fmt.Fprintln(os.Stderr, err)
		return 2
	}
	if err := e.loadSpecs("/verif/contracts/extern"); err != nil {
		fmt.Fprintf(os.Stderr, "govc: contract files: %v\n", err)
		return 2
	}
	out := map[string]*fnBindings{}
	for name, s := range e.specs.funcs {
		if s.Extern || s.IsCallSpec {
			continue
		}
		fn := e.funcsByName[name]
		if fn == nil {
			continue
		}
		b := &fnBindings{Locals: localDescriptors(fn)}
		for _, p := range fn.Params {
			b.Params = append(b.Params, p.Name())
		}
		out[name] = b
		// closures of the function may be under the same contract (inlined): record them too
		for _, an := range fn.AnonFuncs {
			ab := &fnBindings{Locals: localDescriptors(an)}
			for _, p := range an.Params {
				ab.Params = append(ab.Params, p.Name())
			}
			out[an.String()] = ab
		}
	}
	// the module's functions as of now: helpers that appear later are "new" (see outerBeforeAsserts)
	all := &fnBindings{Locals: map[string]string{}}
	for name, fn := range e.funcsByName {
		if fn.Pkg != nil && inModule(fn.Pkg.Pkg) && fn.Parent() == nil {
			all.Params = append(all.Params, name)
		}
	}
	sort.Strings(all.Params)
	out["__functions__"] = all
	// the fields of the module's struct types as of now, "name|type" in declaration order (see fieldAliases)
	for _, p := range e.pkgs {
		if p.Types == nil || !inModule(p.Types) {
			continue
		}
		sc := p.Types.Scope()
		for _, n := range sc.Names() {
			tn, ok := sc.Lookup(n).(*types.TypeName)
			if !ok || tn.IsAlias() {
				continue
			}
			st, ok := tn.Type().Underlying().(*types.Struct)
			if !ok {
				continue
			}
			b := &fnBindings{Locals: map[string]string{}}
			for i := 0; i < st.NumFields(); i++ {
				b.Params = append(b.Params, st.Field(i).Name()+"|"+st.Field(i).Type().String())
			}
			out["__type__:"+p.Types.Path()+"."+n] = b
		}
	}
	data, _ := json.MarshalIndent(out, "", " ")
	if err := os.WriteFile(bindingsPath, data, 0o644); err != nil {
		fmt.Fprintln(os.Stderr, err)
		return 2
	}
	fmt.Printf("bindings for %d functions written to %s\n", len(out), bindingsPath)
	return 0
}

// aliases: recorded names of fn that it no longer has -> the current name of the same variable.
func (e *Engine) aliases(fn *ssa.Function) (locals map[string]string, params map[string]int) {
	locals, params, _ = e.aliasesV(fn)
	return
}

// aliasesV: as aliases; vals holds recorded names whose variable was inlined away (`xs := f(); for range xs`
// became `for range f()`): the value with the recorded descriptor stands for the name.
func (e *Engine) aliasesV(fn *ssa.Function) (locals map[string]string, params map[string]int, vals map[string]ssa.Value) {
	locals, params, vals = map[string]string{}, map[string]int{}, map[string]ssa.Value{}
	if e.bindings == nil {
		e.bindings = loadBindings()
	}
	b := e.bindings[fn.String()]
	if b == nil {
		return
	}
	cur := map[string]bool{}
	for _, p := range fn.Params {
		cur[p.Name()] = true
	}
	for i, n := range b.Params {
		if !cur[n] && i < len(fn.Params) && len(b.Params) == len(fn.Params) {
			params[n] = i
		}
	}
	now := localDescriptors(fn)
	var byVal map[string]ssa.Value
	byDesc := map[string]string{}
	for n, d := range now {
		byDesc[d] = n
	}
	for n, d := range b.Locals {
		if _, still := now[n]; still || cur[n] {
			continue
		}
		if n2, ok := byDesc[d]; ok {
			if _, taken := b.Locals[n2]; !taken { // the new name must not itself be a recorded (different) variable
				locals[n] = n2
			}
			continue
		}
		if !strings.HasPrefix(d, "&") {
			if byVal == nil {
				byVal = map[string]ssa.Value{}
				for v, vd := range valueDescriptors(fn) {
					byVal[vd] = v
				}
			}
			if v, ok := byVal[d]; ok {
				vals[n] = v
			}
		}
	}
	return
}

// knownFunction: did the function exist when the bindings were recorded?
func (e *Engine) knownFunction(name string) bool {
	if e.bindings == nil {
		e.bindings = loadBindings()
	}
	if e.knownFns == nil {
		e.knownFns = map[string]bool{}
		if b := e.bindings["__functions__"]; b != nil {
			for _, n := range b.Params {
				e.knownFns[n] = true
			}
		}
	}
	return e.knownFns[name]
}

// Field renames.  Contracts name struct fields (in expressions, in type clauses, in waive
// patterns and through obligation names in the known-findings file).  The bindings record
// the fields of every struct type of the module; a recorded field that the type no longer
// has is looked for among the fields the type has gained since: the one at the same
// position if the field count is unchanged and the type agrees, otherwise the only new
// field of the same type.  Fields that still exist are never rebound.
var (
	fieldAliasByType = map[string]map[string]string{} // "pkg.T" -> recorded name -> current name
	fieldRevWords    = map[string]string{}            // current name -> recorded name (obligation names stay in contract vocabulary)
	fieldRevRe       *regexp.Regexp
)

func (e *Engine) computeFieldAliases() {
	if e.bindings == nil {
		e.bindings = loadBindings()
	}
	for key, b := range e.bindings {
		if !strings.HasPrefix(key, "__type__:") {
			continue
		}
		tkey := strings.TrimPrefix(key, "__type__:")
		i := strings.LastIndex(tkey, ".")
		if i < 0 {
			continue
		}
		var st *types.Struct
		for _, p := range e.pkgs {
			if p.Types != nil && p.Types.Path() == tkey[:i] {
				if tn, ok := p.Types.Scope().Lookup(tkey[i+1:]).(*types.TypeName); ok {
					st, _ = tn.Type().Underlying().(*types.Struct)
				}
			}
		}
		if st == nil {
			continue
		}
		cur := map[string]bool{}
		for j := 0; j < st.NumFields(); j++ {
			cur[st.Field(j).Name()] = true
		}
		rec := map[string]bool{}
		for _, r := range b.Params {
			rec[strings.SplitN(r, "|", 2)[0]] = true
		}
		used := map[string]bool{}
		for j, r := range b.Params {
			parts := strings.SplitN(r, "|", 2)
			if len(parts) != 2 || cur[parts[0]] {
				continue
			}
			name, typ := parts[0], parts[1]
			to := ""
			if len(b.Params) == st.NumFields() && !rec[st.Field(j).Name()] && st.Field(j).Type().String() == typ {
				to = st.Field(j).Name()
			} else {
				n := 0
				for k := 0; k < st.NumFields(); k++ {
					if f := st.Field(k); !rec[f.Name()] && f.Type().String() == typ {
						to = f.Name()
						n++
					}
				}
				if n != 1 {
					to = ""
				}
			}
			if to == "" || used[to] {
				continue
			}
			used[to] = true
			if fieldAliasByType[tkey] == nil {
				fieldAliasByType[tkey] = map[string]string{}
			}
			fieldAliasByType[tkey][name] = to
			fieldRevWords[to] = name
		}
	}
	if len(fieldRevWords) > 0 {
		var ws []string
		for w := range fieldRevWords {
			ws = append(ws, regexp.QuoteMeta(w))
		}
		sort.Strings(ws)
		fieldRevRe = regexp.MustCompile(`\b(` + strings.Join(ws, "|") + `)\b`)
	}
	ren := func(tkey string, xs []string) {
		for i, x := range xs {
			if to, ok := fieldAliasByType[tkey][x]; ok {
				xs[i] = to
			}
		}
	}
	for tkey, ts := range e.specs.types {
		if fieldAliasByType[tkey] == nil {
			continue
		}
		for i := range ts.Guarded {
			ren(tkey, ts.Guarded[i].Fields)
			if to, ok := fieldAliasByType[tkey][ts.Guarded[i].Lock]; ok {
				ts.Guarded[i].Lock = to
			}
		}
		ren(tkey, ts.Final)
		for i := range ts.FinalDecls {
			ren(tkey, ts.FinalDecls[i].Fields)
		}
		for i := range ts.Frozen {
			ren(tkey, ts.Frozen[i].Fields)
			ren(tkey, ts.Frozen[i].Except)
		}
		for i := range ts.Transient {
			ren(tkey, ts.Transient[i].Fields)
		}
		for i := range ts.Private {
			ren(tkey, ts.Private[i].Fields)
		}
		for i := range ts.LockInvs {
			if to, ok := fieldAliasByType[tkey][ts.LockInvs[i].Lock]; ok {
				ts.LockInvs[i].Lock = to
			}
		}
		ren(tkey, ts.Owns)
		ren(tkey, ts.Atomic)
		ren(tkey, ts.Confined)
	}
}

// contractVocabulary: an obligation name with current field names put back to the recorded ones.
func contractVocabulary(name string) string {
	if fieldRevRe == nil {
		return name
	}
	return fieldRevRe.ReplaceAllStringFunc(name, func(w string) string { return fieldRevWords[w] })
}

func aliasedField(t types.Type, name string) (string, bool) {
	if len(fieldAliasByType) == 0 {
		return "", false
	}
	n, ok := t.(*types.Named)
	if !ok || n.Obj().Pkg() == nil {
		return "", false
	}
	to, ok := fieldAliasByType[n.Obj().Pkg().Path()+"."+n.Obj().Name()][name]
	return to, ok
}
