package main

// Per-property text that goes into evidence files: what the obligations do not
// cover and which assumptions the claim rests on.

type PropMeta struct {
	NotCovered  string
	Assumptions []string
}

var commonAssumptions = []string{
	"go/ssa form of the current /repo source is the semantics verified; the VC generator (govc) and the SMT solvers are trusted",
	"integers are mathematical within their declared type ranges; wrap-around is only considered where an overflow obligation is listed",
	"reasoning is sequential per function: other goroutines interfere only at lock acquisitions of fields declared guarded",
	"user callbacks (handlers, middlewares, filters, context functions, loggers) respect their callspec: they modify only the ghost state the callspec names",
	"termination is not proved except where a decreases clause is listed",
}

var propMeta = map[string]PropMeta{
	"C16": {
		NotCovered: "Concurrent use of one client object (two goroutines racing Initialize/Close) is C20's subject and not decided here; the not-initialized error is required to be non-nil (ListResources/ReadResource wrap the sentinel with %w), its text is not examined; the capabilities part relies on the registries' type invariant (every ordered uri is registered), which C12's obligations establish for the registering functions.",
		Assumptions: append([]string{
			"a call to a transport method counts as exactly one transport operation (ghost counter netops); transports never call back into Client.Initialize/Close/setState",
			"Logger and Session methods are side-effect free with respect to manager and client state",
		}, commonAssumptions...),
	},
	"C17": {
		NotCovered: "Wall-clock behaviour (that a wait really lasts the computed duration; promptness of cancellation) and the classification of concrete transport errors produced by net/http are not decided: the obligations fix the attempt count, the retry-only-after-transient rule, the clamping of every configuration, the value passed to time.After for every k, and exactly-once without a retry option. The power Factor^(k-1) is the float64 left-to-right product the property's formula denotes.",
		Assumptions: append([]string{
			"int<->float64 conversions are uninterpreted functions constrained by instances of monotonicity/exactness facts of IEEE-754 round-to-nearest-even and truncation (each instance is a theorem; listed in numconv.go)",
			"the operation callback only bumps the ghost attempt counter and does not modify the retry configuration",
			"Execute is called with a nil or validated configuration (established by WithRetry/WithSimpleRetry, checked as their postcondition)",
		}, commonAssumptions...),
	},
}
