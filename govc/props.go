package main

// Per-property text that goes into evidence files: what the obligations do not
// cover and which assumptions the claim rests on.

type PropMeta struct {
	NotCovered  string
	Assumptions []string
}

var propMeta = map[string]PropMeta{}
