package main

// Per-property text that goes into evidence files: what the obligations do not
// cover and which assumptions the claim rests on.

type PropMeta struct {
	NotCovered  string
	Assumptions []string
}

var commonAssumptions = []string{
	"go/ssa form of the current /repo source is the semantics verified; the VC generator (govc) and the SMT solvers are trusted",
	"integers are mathematical within their declared type ranges; wrap-around is only considered where an overflow obligation is listed",
	"reasoning is sequential per function: other goroutines interfere only at lock acquisitions of fields declared guarded",
	"user callbacks (handlers, middlewares, filters, context functions, loggers) respect their callspec: they modify only the ghost state the callspec names",
	"termination is not proved except where a decreases clause is listed",
}

var propMeta = map[string]PropMeta{
	"C02": {
		NotCovered:  "encode(decode) agreement is proved on the decode side only, against the stated shape of what encoding/json produces from the struct tags; images/audio with an empty data or mime type are still rejected by the decoders (the contracts require non-empty ones); PromptMessage.UnmarshalJSON, the list/descriptor decoders (plain encoding/json) and annotations are not under contract; equality of item contents inside parseCallToolResult is per-kind (each parseContent call), not one quantified statement over the array.",
		Assumptions: append([]string{"encoding/json marshals TextContent/ImageContent/AudioContent/EmbeddedResource/TextResourceContents/BlobResourceContents to objects with exactly the members named by their struct tags, and json.Unmarshal into map[string]any gives those members back as string/bool/[]any/map values", "sseutil.WriteEvent's data-line splitting and the clients' line readers are inverse for JSON text (which contains no raw line breaks)"}, commonAssumptions...),
	},
	"C01": {
		NotCovered:  "Concurrency of several calls in flight is covered only through the per-function contracts (each call's entry in a pending table is its own key; lock discipline under C20/C07); that no frame is dropped when the legacy SSE event queue is full is not proved (the code drops it and the call then ends with its context); string ids are compared by their text.",
		Assumptions: append([]string{"IEEE 754: float64(n) is exact and truncates back to n for |n| <= 2^53", "fmt.Sprintf(\"%v\", n) of an int64 prints strconv.FormatInt(n, 10); math.Trunc/math.Abs as specified in std.spec", "the stdio client transport returns a non-nil raw message when it returns no error (trusted contract)"}, commonAssumptions...),
	},
	"C05": {
		NotCovered:  "What a successful write to the stream means below sseutil.WriteEvent (net/http buffering, the peer actually reading it); ordering between concurrent senders beyond the per-stream write lock (C09); the legacy SSE server's notification queue and the stdio server (single session) are not under contract for routing; that the filter callback is side-effect free is assumed.",
		Assumptions: append([]string{"ghost instrumentation: sendattempts counts calls of httpServerHandler.sendNotification, sendoks those that returned nil; filtercalls/selected count the filter callback's calls and true results", "pendingRequestKey is injective in the session id as long as session ids contain no NUL byte (they are UUID strings)", "session.GetID() is stable for a session"}, commonAssumptions...),
	},
	"C10": {
		NotCovered:  "Pairwise distinctness over a whole stream is concluded outside the verifier from the proved per-call facts (one generator per stream, fresh id per event, strictly increasing private counter, id text determines the counter); the GET stream's single generator is by construction (one responder per connection) and not under contract. NotificationParams.MarshalJSON/UnmarshalJSON and encoding/json are not under contract, so 'parameters intact' is proved up to the value handed to json.Marshal and from the value json.Unmarshal produced. uint64 counter wrap-around is ignored.",
		Assumptions: append([]string{"fmt.Sprintf(\"evt-%d-%d\", ts, n) prints n after the last '-' (idctr)", "the notification handler callback is counted once per invocation (ghost instrumentation) and (*bufio.Reader).ReadString delivers the stream's lines in order"}, commonAssumptions...),
	},
	"C08": {
		NotCovered:  "Wall-clock promptness, goroutine / file-descriptor / child-process counts, kill -9 and truncation at byte offsets are not expressible as contracts on these functions; the stdio reader's blocking Decode is ended by the pipe closing (os/exec, assumed). The emptying loop of the stdio close() (range-delete) is not proved to leave the table empty. That a stdio call which returns no error returns a non-nil result depends on what the reader sends on the channel (not under contract).",
		Assumptions: append([]string{"net/http aborts an exchange and every read of its response body when the context the request was built with ends", "a context.CancelFunc ends its context; the stored body-close function of the SSE stream only closes that body", "(*exec.Cmd).Wait returns when the child has exited, however it exited", "cancellability obligations are structural (goal true/false from the select's cases), not semantic"}, commonAssumptions...),
	},
	"C14": {
		NotCovered:  "Equality of the JSON-RPC results themselves is reduced to 'the same manager entry point is invoked with the same request and its result is wrapped the same way'; order of listed items and error wording are outside the property; the stdio client's re-marshalling of results is encoding/json's behaviour.",
		Assumptions: append([]string{"a transport returns a non-nil raw message when it returns no error (checked for the concrete transports under C08)"}, commonAssumptions...),
	},
	"C13": {
		NotCovered:  "The legacy SSE server's handleSSE (the context of the event stream itself) and the notification path behind handleNotificationMessage's goroutine are not under contract; what user-supplied context functions, filters and handlers do with the context; true concurrency (the frame argument: request paths cannot write configuration fields, so nothing request-derived can be parked where another request reads it).",
		Assumptions: append([]string{"context.WithValue/WithCancel/WithTimeout and internal/context.WithoutCancel derive a context whose Value agrees with the parent except for the added key", "HTTP context functions are deterministic functions of (context, request)"}, commonAssumptions...),
	},
	"C19": {
		NotCovered:  "Multi-valued static headers are covered per key (the outer loop visits every key), not per value; the before-request function may itself modify the request; answers to server-issued requests are sent with a fresh 30 s context, not with the handshake's context values (the property asks for the handshake's values for background streams: not decided, see DESIGN.md).",
		Assumptions: append([]string{"http.NewRequestWithContext returns a request for the given URL with a non-nil URL and header; the user's HTTPBeforeRequestFunc is counted once per invocation (ghost instrumentation)", "transport configuration fields are written only by the constructors and option functions listed as init"}, commonAssumptions...),
	},
	"C03": {
		NotCovered:  "The MCP schema of result payloads beyond the envelope and 'list results are arrays'; the stdio wrapper's envelopes; that a 2xx body is non-empty (only the status is modelled); the 404 of the legacy SSE server for a path that is neither endpoint (path normalisation is string surgery outside the contracts).",
		Assumptions: append([]string{"net/http: the first WriteHeader/http.Error fixes the status, a Write without it sends 200; user handlers and middlewares return either a message or an error"}, commonAssumptions...),
	},
	"C04": {
		NotCovered:  "Uniqueness and entropy of issued ids (crypto/rand and hex encoding are library facts), the one-minute expiry sweep, sessions racing on one id, and 'the answer to a request does not depend on earlier requests' in stateless mode beyond 'no id issued or required'.",
		Assumptions: append([]string{"the sessionManager interface satisfies its contract (getSession: membership, createSession: adds exactly one fresh id, terminateSession: removes exactly that id); it is checked separately for internal/session where in reach"}, commonAssumptions...),
	},
	"C11": {
		NotCovered:  "Interleavings of concurrent sends with the registration beyond the lock discipline; that the client really receives the events (C09/C05).",
		Assumptions: append([]string{"at each acquisition of getSSEConnectionsLock the table is arbitrary; postconditions are relative to that state (atlock)"}, commonAssumptions...),
	},
	"C09": {
		NotCovered:  "Systematic exploration of interleavings and pipe-buffer boundaries; the shape of a frame for every payload (it rests on json.Marshal emitting no raw newline); the POST-SSE response stream, whose writer is confined to the request's goroutine.",
		Assumptions: append([]string{"holding the stream's lock during all writes of a frame is sufficient for frames not to interleave; json.Marshal output contains no raw LF/CR"}, commonAssumptions...),
	},
	"C12": {
		NotCovered:  "Linearizability against a set model under real schedules (the lock discipline plus one critical section per operation is the sufficient condition that is proved); the in-place splice of toolsOrder in unregisterTools; registration order of resources beyond the order slice holding only registered uris.",
		Assumptions: append([]string{"at every lock acquisition the guarded fields and the contents of guarded maps are arbitrary (other goroutines may have run); postconditions are stated relative to that state (atlock)"}, commonAssumptions...),
	},
	"C20": {
		NotCovered:  "Fields handed between goroutines by channel operations or before a goroutine is started are not declared (trusted happens-before); races inside dependencies; the Go memory model itself. A discipline is a sufficient condition: a field may be race-free for reasons the declarations do not capture.",
		Assumptions: append([]string{"constructors and the listed construction-time option functions run before the object is shared"}, commonAssumptions...),
	},
	"C06": {
		NotCovered: "Deadlock between goroutines, goroutine-per-request leaks, 'keeps serving other clients', resource exhaustion by huge or deeply nested values (encoding/json's behaviour) and the HTTP status/JSON-RPC error answers (C03) are not decided. Dereferences of parameters and fields of unknown nil-ness are not obligations (only the pointer result of a call that also returns an error is). Functions with a deferred recover() are exempt from the panic obligations (the panic does not crash the server).",
		Assumptions: append([]string{
			"objects are created by their constructors: the type invariants (maps non-nil) are assumed at every function entry and checked for the functions that write the fields; callees preserve the invariants of the objects they are handed",
			"callbacks and code outside the module do not close channels private to the module's types and do not change lock state of this goroutine",
			"SSEServer/StdioServer.SendRequest are called with int64 request ids (the library's own ListRoots does)",
		}, commonAssumptions...),
	},
	"C07": {
		NotCovered: "CPU time, promptness, 'the affected call returns an error' and 'other pending calls still complete' (C08/C01) are not decided here. sseClientTransport.close closes the response channels in a loop over the map; that the channels in the map are open and pairwise distinct is not proved (waived: nosweep close). The stderr log reader of the stdio client keeps bufio.Scanner's default token limit (waived: not a protocol stream).",
		Assumptions: append([]string{
			"assumed library behaviour: bufio.Reader.ReadString / json.Decoder.Decode / bufio.Scanner.Scan either consume input or fail terminally (errors are sticky); bufio.Scanner's token limit is 64 KiB unless Buffer is called; http.Response.Body is non-nil when Handle returns no error",
			"type invariants hold at function entry and callees preserve them (checked for every function that writes the fields)",
		}, commonAssumptions...),
	},
	"C15": {
		NotCovered: "What a user middleware does (calling next twice, not at all) is its own business: the contract fixes what the library builds and how often it invokes it. The mapping of a middleware error to a JSON-RPC internal error is covered for the Streamable and legacy SSE wrappers (C14 clauses); that Server.initComponents replays the pending WithMiddleware list in order through use() is by inspection (its loop is not under contract), WithMiddleware/WithSSEMiddleware themselves are proved to accumulate in option order.",
		Assumptions: append([]string{
			"applying a middleware to a handler is a deterministic, side-effect free construction (callspec Middleware: function)",
		}, commonAssumptions...),
	},
	"C16": {
		NotCovered: "Concurrent use of one client object (two goroutines racing Initialize/Close) is C20's subject and not decided here; the not-initialized error is required to be non-nil (ListResources/ReadResource wrap the sentinel with %w), its text is not examined; the capabilities part relies on the registries' type invariant (every ordered uri is registered), which C12's obligations establish for the registering functions.",
		Assumptions: append([]string{
			"a call to a transport method counts as exactly one transport operation (ghost counter netops); transports never call back into Client.Initialize/Close/setState",
			"Logger and Session methods are side-effect free with respect to manager and client state",
		}, commonAssumptions...),
	},
	"C17": {
		NotCovered: "Wall-clock behaviour (that a wait really lasts the computed duration; promptness of cancellation) and the classification of concrete transport errors produced by net/http are not decided: the obligations fix the attempt count, the retry-only-after-transient rule, the clamping of every configuration, the value passed to time.After for every k, and exactly-once without a retry option. The power Factor^(k-1) is the float64 left-to-right product the property's formula denotes.",
		Assumptions: append([]string{
			"int<->float64 conversions are uninterpreted functions constrained by instances of monotonicity/exactness facts of IEEE-754 round-to-nearest-even and truncation (each instance is a theorem; listed in numconv.go)",
			"the operation callback only bumps the ghost attempt counter and does not modify the retry configuration",
			"Execute is called with a nil or validated configuration (established by WithRetry/WithSimpleRetry, checked as their postcondition)",
		}, commonAssumptions...),
	},
}
