package main

// SMT-LIB term construction, declaration bookkeeping, query emission with
// cone-of-influence reduction, and the solver portfolio.

import (
	"bytes"
	"context"
	"fmt"
	"os"
	"os/exec"
	"sort"
	"strings"
	"sync"
	"sync/atomic"
	"time"
)

const (
	sortBool   = "Bool"
	sortInt    = "Int"
	sortFloat  = "(_ FloatingPoint 11 53)"
	sortString = "String"
	sortAny    = "Any"
)

// Ctx collects the symbols (declarations and definitions) created while one
// function is translated.  Every symbol has a creation index; a query emits the
// symbols in the cone of the formulas it contains, in creation order.
type Ctx struct {
	syms  map[string]*sym
	order int
	fresh map[string]int
}

type sym struct {
	name string
	idx  int
	decl string // full SMT command
	deps []string
	rec  bool
}

func newCtx() *Ctx {
	return &Ctx{syms: map[string]*sym{}, fresh: map[string]int{}}
}

func sanitize(s string) string {
	var b strings.Builder
	for _, r := range s {
		switch {
		case r >= 'a' && r <= 'z', r >= 'A' && r <= 'Z', r >= '0' && r <= '9', r == '_', r == '.', r == '$', r == '!':
			b.WriteRune(r)
		case r == '*':
			b.WriteString("P.")
		case r == '[':
			b.WriteString("L.")
		case r == ']':
			b.WriteString(".R")
		case r == '/':
			b.WriteString(".")
		default:
			b.WriteString("_")
		}
	}
	return b.String()
}

func (c *Ctx) freshName(base string) string {
	base = sanitize(base)
	n := c.fresh[base]
	c.fresh[base] = n + 1
	return fmt.Sprintf("%s!%d", base, n)
}

func (c *Ctx) add(name, decl string, body string, rec bool) {
	if _, ok := c.syms[name]; ok {
		return
	}
	c.order++
	c.syms[name] = &sym{name: name, idx: c.order, decl: decl, deps: symbolsOf(body), rec: rec}
}

// Declare a constant (idempotent).
func (c *Ctx) declConst(name, srt string) string {
	c.add(name, fmt.Sprintf("(declare-fun %s () %s)", name, srt), "", false)
	return name
}

func (c *Ctx) freshConst(base, srt string) string {
	return c.declConst(c.freshName(base), srt)
}

func (c *Ctx) declFun(name string, args []string, res string) string {
	c.add(name, fmt.Sprintf("(declare-fun %s (%s) %s)", name, strings.Join(args, " "), res), "", false)
	return name
}

// Define a constant by a term; returns the name.
func (c *Ctx) define(base, srt, body string) string {
	// small bodies are not worth a name
	if len(body) < 24 && !strings.Contains(body, " ") {
		return body
	}
	name := c.freshName(base)
	c.add(name, fmt.Sprintf("(define-fun %s () %s %s)", name, srt, body), body, false)
	return name
}

func (c *Ctx) defineFun(name string, params []string, psorts []string, res string, body string, rec bool) {
	var ps []string
	for i := range params {
		ps = append(ps, fmt.Sprintf("(%s %s)", params[i], psorts[i]))
	}
	kw := "define-fun"
	if rec {
		kw = "define-fun-rec"
	}
	c.add(name, fmt.Sprintf("(%s %s (%s) %s %s)", kw, name, strings.Join(ps, " "), res, body), body, rec)
}

// symbolsOf returns candidate symbol tokens of a term (superset is fine).
func symbolsOf(t string) []string {
	var out []string
	i := 0
	n := len(t)
	for i < n {
		ch := t[i]
		if ch == '"' { // string literal: skip ("" is an escaped quote)
			i++
			for i < n {
				if t[i] == '"' {
					if i+1 < n && t[i+1] == '"' {
						i += 2
						continue
					}
					break
				}
				i++
			}
			i++
			continue
		}
		if ch == '(' || ch == ')' || ch == ' ' || ch == '\n' || ch == '\t' {
			i++
			continue
		}
		j := i
		for j < n && t[j] != '(' && t[j] != ')' && t[j] != ' ' && t[j] != '\n' && t[j] != '\t' && t[j] != '"' {
			j++
		}
		out = append(out, t[i:j])
		i = j
	}
	return out
}

const prelude = `(declare-datatypes ((Any 0)) (((any_nil) (any_bool (tg_b Int) (vl_b Bool)) (any_int (tg_i Int) (vl_i Int)) (any_str (tg_s Int) (vl_s String)) (any_float (tg_f Int) (vl_f (_ FloatingPoint 11 53))) (any_ref (tg_r Int) (vl_r Int)))))
(define-fun any_tag ((a Any)) Int (ite ((_ is any_nil) a) 0 (ite ((_ is any_bool) a) (tg_b a) (ite ((_ is any_int) a) (tg_i a) (ite ((_ is any_str) a) (tg_s a) (ite ((_ is any_float) a) (tg_f a) (tg_r a)))))))
`

// Query builds the SMT-LIB text: prelude, cone of symbols, assumptions, negated goal.
func (c *Ctx) query(assumes []string, goal string, negateGoal bool, logicOpts string) string {
	need := map[string]bool{}
	var stack []string
	push := func(t string) {
		for _, s := range symbolsOf(t) {
			if _, ok := c.syms[s]; ok && !need[s] {
				need[s] = true
				stack = append(stack, s)
			}
		}
	}
	push(goal)
	for _, a := range assumes {
		push(a)
	}
	for len(stack) > 0 {
		s := stack[len(stack)-1]
		stack = stack[:len(stack)-1]
		for _, d := range c.syms[s].deps {
			if _, ok := c.syms[d]; ok && !need[d] {
				need[d] = true
				stack = append(stack, d)
			}
		}
	}
	var list []*sym
	for s := range need {
		list = append(list, c.syms[s])
	}
	sort.Slice(list, func(i, j int) bool { return list[i].idx < list[j].idx })
	var b strings.Builder
	b.WriteString("(set-logic ALL)\n")
	b.WriteString(prelude)
	for _, s := range list {
		b.WriteString(s.decl)
		b.WriteByte('\n')
	}
	for _, a := range assumes {
		fmt.Fprintf(&b, "(assert %s)\n", a)
	}
	if negateGoal {
		fmt.Fprintf(&b, "(assert (not %s))\n", goal)
	} else if goal != "" {
		fmt.Fprintf(&b, "(assert %s)\n", goal)
	}
	b.WriteString("(check-sat)\n")
	return b.String()
}

// ---------------------------------------------------------------------------
// term helpers

func app(op string, args ...string) string {
	return "(" + op + " " + strings.Join(args, " ") + ")"
}

func and(ts ...string) string {
	var xs []string
	for _, t := range ts {
		if t == "true" || t == "" {
			continue
		}
		if t == "false" {
			return "false"
		}
		xs = append(xs, t)
	}
	switch len(xs) {
	case 0:
		return "true"
	case 1:
		return xs[0]
	}
	return app("and", xs...)
}

func or(ts ...string) string {
	var xs []string
	for _, t := range ts {
		if t == "false" || t == "" {
			continue
		}
		if t == "true" {
			return "true"
		}
		xs = append(xs, t)
	}
	switch len(xs) {
	case 0:
		return "false"
	case 1:
		return xs[0]
	}
	return app("or", xs...)
}

func not(t string) string {
	switch t {
	case "true":
		return "false"
	case "false":
		return "true"
	}
	if strings.HasPrefix(t, "(not ") && balancedTail(t[5:len(t)-1]) {
		return t[5 : len(t)-1]
	}
	return app("not", t)
}

func balancedTail(s string) bool {
	d := 0
	for i := 0; i < len(s); i++ {
		switch s[i] {
		case '(':
			d++
		case ')':
			d--
			if d < 0 {
				return false
			}
			if d == 0 && i != len(s)-1 {
				return false
			}
		case ' ':
			if d == 0 {
				return false
			}
		case '"':
			return false
		}
	}
	return d == 0
}

func implies(a, b string) string {
	if a == "true" {
		return b
	}
	if a == "false" || b == "true" {
		return "true"
	}
	return app("=>", a, b)
}

func ite(c, a, b string) string {
	if c == "true" {
		return a
	}
	if c == "false" {
		return b
	}
	if a == b {
		return a
	}
	return app("ite", c, a, b)
}

func eq(a, b string) string {
	if a == b {
		return "true"
	}
	return app("=", a, b)
}

func intLit(n int64) string {
	if n < 0 {
		return fmt.Sprintf("(- %d)", -n)
	}
	return fmt.Sprintf("%d", n)
}

func bigIntLit(s string) string {
	if strings.HasPrefix(s, "-") {
		return "(- " + s[1:] + ")"
	}
	return s
}

func strLit(s string) string {
	var b strings.Builder
	b.WriteByte('"')
	for _, r := range s {
		switch {
		case r == '"':
			b.WriteString(`""`)
		case r == '\\':
			b.WriteString(`\u{5c}`)
		case r < 32 || r > 126:
			fmt.Fprintf(&b, `\u{%x}`, r)
		default:
			b.WriteRune(r)
		}
	}
	b.WriteByte('"')
	return b.String()
}

func floatLit(f float64) string {
	// exact: via the IEEE bit pattern
	bits := mathFloat64bits(f)
	return fmt.Sprintf("((_ to_fp 11 53) #x%016x)", bits)
}

// ---------------------------------------------------------------------------
// solver portfolio

type solverResult struct {
	Verdict string            `json:"verdict"` // unsat | sat | unknown | timeout | error
	Solver  string            `json:"solver"`
	Time    float64           `json:"time_s"`
	Output  string            `json:"output,omitempty"`
	Model   string            `json:"model,omitempty"`
	All     map[string]string `json:"all,omitempty"`
}

type solverSpec struct {
	name string
	argv func(file string, timeoutS int, seed int) []string
}

var solvers = []solverSpec{
	{"z3-new", func(f string, t int, seed int) []string {
		return []string{"z3-new", fmt.Sprintf("-T:%d", t), fmt.Sprintf("smt.random_seed=%d", seed), fmt.Sprintf("sat.random_seed=%d", seed), f}
	}},
	{"cvc5", func(f string, t int, seed int) []string {
		return []string{"cvc5", "--strings-exp", "--fp-exp", fmt.Sprintf("--tlimit=%d", t*1000), fmt.Sprintf("--seed=%d", seed), f}
	}},
	{"z3", func(f string, t int, seed int) []string {
		return []string{"z3", fmt.Sprintf("-T:%d", t), fmt.Sprintf("smt.random_seed=%d", seed), f}
	}},
}

var solverSem = make(chan struct{}, 30)
var queryCounter int64
var workDir = "/verif/work"

// runQuery races the solvers on the query text.  wantModel: on sat, re-run the
// answering solver with get-model.
func runQuery(name, text string, timeoutS int, seed int, need int) solverResult {
	os.MkdirAll(workDir, 0o755)
	qn := atomic.AddInt64(&queryCounter, 1)
	base := sanitize(name)
	if len(base) > 120 {
		base = base[:120]
	}
	file := fmt.Sprintf("%s/q%d_%d_%s.smt2", workDir, os.Getpid(), qn, base)
	os.WriteFile(file, []byte(text), 0o644)
	defer os.Remove(file)
	start := time.Now()
	ctx, cancel := context.WithCancel(context.Background())
	defer cancel()
	type one struct {
		solver, verdict, out string
	}
	ch := make(chan one, len(solvers))
	var wg sync.WaitGroup
	for _, s := range solvers {
		wg.Add(1)
		go func(s solverSpec) {
			defer wg.Done()
			solverSem <- struct{}{}
			defer func() { <-solverSem }()
			if ctx.Err() != nil {
				ch <- one{s.name, "cancelled", ""}
				return
			}
			argv := s.argv(file, timeoutS, seed)
			cctx, ccancel := context.WithTimeout(ctx, time.Duration(timeoutS+2)*time.Second)
			defer ccancel()
			cmd := exec.CommandContext(cctx, argv[0], argv[1:]...)
			var buf bytes.Buffer
			cmd.Stdout = &buf
			cmd.Stderr = &buf
			cmd.Run()
			out := buf.String()
			first := strings.TrimSpace(strings.SplitN(strings.TrimSpace(out), "\n", 2)[0])
			v := "unknown"
			switch {
			case first == "unsat":
				v = "unsat"
			case first == "sat":
				v = "sat"
			case ctx.Err() != nil:
				v = "cancelled"
			case strings.Contains(out, "timeout") || cctx.Err() != nil:
				v = "timeout"
			case first == "unknown":
				v = "unknown"
			default:
				v = "error"
			}
			ch <- one{s.name, v, out}
		}(s)
	}
	go func() { wg.Wait(); close(ch) }()
	res := solverResult{Verdict: "unknown", All: map[string]string{}}
	agree := map[string]int{}
	for o := range ch {
		if o.verdict == "cancelled" {
			continue
		}
		res.All[o.solver] = o.verdict
		if o.verdict == "error" {
			res.All[o.solver] = "error: " + firstLine(o.out)
		}
		if o.verdict == "unsat" || o.verdict == "sat" {
			agree[o.verdict]++
			if agree[o.verdict] >= need && (res.Verdict != "unsat" && res.Verdict != "sat") {
				res.Verdict = o.verdict
				res.Solver = o.solver
				res.Time = time.Since(start).Seconds()
				cancel()
			}
		}
	}
	if res.Verdict != "unsat" && res.Verdict != "sat" {
		res.Time = time.Since(start).Seconds()
		// if anybody answered definitively but fewer than need, report it as such
		if agree["unsat"] > 0 && agree["sat"] == 0 {
			res.Verdict = "unsat"
			res.Solver = "single"
		} else if agree["sat"] > 0 && agree["unsat"] == 0 {
			res.Verdict = "sat"
			res.Solver = "single"
		} else {
			allTO := true
			for _, v := range res.All {
				if v != "timeout" {
					allTO = false
				}
			}
			if allTO {
				res.Verdict = "timeout"
			}
		}
	}
	return res
}

// getModel asks z3-new (then cvc5) for a model of a sat query.
func getModel(name, text string, timeoutS int) string {
	os.MkdirAll(workDir, 0o755)
	file := fmt.Sprintf("%s/%s_%x.model.smt2", workDir, sanitize(name)[:min(len(sanitize(name)), 100)], hash32(name))
	defer os.Remove(file)
	for _, s := range []string{"z3-new", "cvc5"} {
		t := text
		if s == "cvc5" {
			t = "(set-option :produce-models true)\n" + t
		}
		t = t + "(get-model)\n"
		os.WriteFile(file, []byte(t), 0o644)
		var argv []string
		if s == "z3-new" {
			argv = []string{"z3-new", fmt.Sprintf("-T:%d", timeoutS), file}
		} else {
			argv = []string{"cvc5", "--strings-exp", "--fp-exp", fmt.Sprintf("--tlimit=%d", timeoutS*1000), file}
		}
		solverSem <- struct{}{}
		out, _ := exec.Command(argv[0], argv[1:]...).CombinedOutput()
		<-solverSem
		o := strings.TrimSpace(string(out))
		if strings.HasPrefix(o, "sat") {
			return strings.TrimSpace(strings.TrimPrefix(o, "sat"))
		}
	}
	return ""
}

func firstLine(s string) string {
	s = strings.TrimSpace(s)
	if i := strings.IndexByte(s, '\n'); i >= 0 {
		s = s[:i]
	}
	if len(s) > 200 {
		s = s[:200]
	}
	return s
}

func hash32(s string) uint32 {
	var h uint32 = 2166136261
	for i := 0; i < len(s); i++ {
		h ^= uint32(s[i])
		h *= 16777619
	}
	return h
}
