package main

// Calls: builtins, contracts at call sites, callspecs for dynamic callees,
// inlining, defers, lock discipline.

import (
	"fmt"
	"go/token"
	"go/types"
	"os"
	"sort"
	"strings"

	"golang.org/x/tools/go/ssa"
)

func (fr *frame) call(x *ssa.Call, st *bstate) {
	v := fr.applyCall(&x.Call, st, x, nil)
	if v.K == KUnit && kindOf(x.Type()) != KUnit {
		v = fr.f.freshVal("call", x.Type())
	}
	fr.vals[x] = v
}

// calleeNames returns the names under which a call site can be addressed in
// "before call" clauses and abstraction reports.
func calleeNames(cc *ssa.CallCommon) []string {
	if cc.IsInvoke() {
		recv := cc.Value.Type()
		rn := types.TypeString(recv, func(p *types.Package) string { return p.Name() })
		return []string{cc.Method.Name(), rn + "." + cc.Method.Name(), cc.Method.FullName()}
	}
	if fn := cc.StaticCallee(); fn != nil {
		names := []string{fn.Name(), fn.String()}
		if fn.Signature.Recv() != nil {
			rt := fn.Signature.Recv().Type()
			rn := types.TypeString(rt, func(p *types.Package) string { return p.Name() })
			names = append(names, rn+"."+fn.Name(), "("+rn+")."+fn.Name())
			if p, ok := rt.(*types.Pointer); ok {
				if n, ok := p.Elem().(*types.Named); ok {
					names = append(names, n.Obj().Name()+"."+fn.Name())
				}
			} else if n, ok := rt.(*types.Named); ok {
				names = append(names, n.Obj().Name()+"."+fn.Name())
			}
		} else if fn.Pkg != nil {
			names = append(names, fn.Pkg.Pkg.Name()+"."+fn.Name())
		}
		return names
	}
	if b, ok := cc.Value.(*ssa.Builtin); ok {
		return []string{b.Name()}
	}
	names := []string{valueLabel(cc.Value)}
	// a function value loaded from a struct field: also addressable by the field's name
	switch v := cc.Value.(type) {
	case *ssa.UnOp:
		if fa, ok := v.X.(*ssa.FieldAddr); ok {
			if pt, ok := fa.X.Type().Underlying().(*types.Pointer); ok {
				if st, ok := pt.Elem().Underlying().(*types.Struct); ok {
					names = append(names, st.Field(fa.Field).Name())
				}
			}
		}
	case *ssa.Field:
		if st, ok := v.X.Type().Underlying().(*types.Struct); ok {
			names = append(names, st.Field(v.Field).Name())
		}
	}
	return names
}

func (fr *frame) beforeAsserts(cc *ssa.CallCommon, st *bstate, site ssa.Instruction) {
	f := fr.f
	fr.outerBeforeAsserts(cc, st, site)
	if fr.spec == nil || len(fr.spec.Before) == 0 {
		return
	}
	names := calleeNames(cc)
	if !cc.IsInvoke() && cc.StaticCallee() == nil {
		for _, b := range fr.fn.Blocks {
			for _, in := range b.Instrs {
				if d, ok := in.(*ssa.DebugRef); ok && d.X == cc.Value {
					if n := debugRefName(d); n != "" {
						names = append(names, n)
					}
				}
			}
		}
	}
	for _, ba := range fr.spec.Before {
		match := false
		for _, n := range names {
			if n == ba.Callee {
				match = true
			}
		}
		if !match || !f.e.active(ba.C.Tags) {
			continue
		}
		if ba.Ordinal != 0 && fr.siteOrdinal(ba.Callee, site) != ba.Ordinal {
			continue // #0: the clause holds at every call of the callee in this function
		}
		ba.C.used = true
		env := fr.specEnv(st.heap, fr.oldHeap, nil)
		env.addVars(fr.localEnvAtInstr(site, st.heap))
		argv := map[string]Val{}
		k := 0
		if cc.IsInvoke() {
			argv["arg0"] = fr.val(cc.Value)
			k = 1
		}
		for i, a := range cc.Args {
			argv[fmt.Sprintf("arg%d", i+k)] = fr.val(a)
		}
		env.addVars(argv)
		v, err := env.evalBool(ba.C.E)
		if err != nil {
			f.fail("%s: before call %s: %v", ba.C.Line, ba.Callee, err)
			continue
		}
		f.oblige(st, fmt.Sprintf("%s#before:%s#%d:%s", fnShortName(fr.fn), ba.Callee, ba.Ordinal, clauseLabel(ba.C)), "assert", ba.C.Tags, v, ba.C.Src, ba.C.Line)
	}
}

// localEnvAtInstr: source variables visible just before an instruction.
func (fr *frame) localEnvAtInstr(site ssa.Instruction, heap *Heap) map[string]Val {
	env := map[string]Val{}
	for n, v := range fr.params {
		env[n] = v
	}
	if site == nil {
		return env
	}
	for _, name := range fr.localNames() {
		v, isAddr, ok := fr.reachingDef(name, site.Block(), site)
		if !ok {
			continue
		}
		val, have := fr.valOK(v)
		if !have {
			continue
		}
		if isAddr {
			if pt, ok := v.Type().Underlying().(*types.Pointer); ok {
				env[name] = fr.f.load(heap, val, pt.Elem())
				continue
			}
		}
		env[name] = val
	}
	for old, cur := range fr.aliasLocals {
		if v, ok := env[cur]; ok {
			if _, have := env[old]; !have {
				env[old] = v
			}
		}
	}
	for old, v := range fr.aliasVals {
		if _, have := env[old]; !have {
			if val, ok := fr.valOK(v); ok {
				env[old] = val
			}
		}
	}
	return env
}

func (fr *frame) applyCall(cc *ssa.CallCommon, st *bstate, site ssa.Instruction, savedArgs []Val) Val {
	f := fr.f
	var args []Val
	if savedArgs != nil {
		args = savedArgs
	} else {
		if cc.IsInvoke() {
			args = append(args, fr.val(cc.Value))
		}
		for _, a := range cc.Args {
			args = append(args, fr.val(a))
		}
	}
	fr.beforeAsserts(cc, st, site)
	// sweep kind "nilsession": a method of the module's Session interface is invoked only on a value known to
	// be non-nil (servers run with sessions disabled hand their handlers a nil Session)
	if cc.IsInvoke() && f.sweep["nilsession"] && !f.dry && !fr.recovers() && len(args) > 0 && args[0].K == KAny {
		if n, ok := cc.Value.Type().(*types.Named); ok && n.Obj().Pkg() != nil && inModule(n.Obj().Pkg()) && (n.Obj().Name() == "Session" || n.Obj().Name() == "sessionManager") {
			p := token.NoPos
			if site != nil {
				p = site.Pos()
			}
			f.oblige(st, fmt.Sprintf("%s#session-used-only-when-present:%s.%s", fnShortName(fr.fn), valueLabel(cc.Value), cc.Method.Name()), "safety", f.sweepTags,
				not(eq(args[0].Tm, "any_nil")), "a Session may be nil when sessions are disabled: its methods are invoked only where it is known to be non-nil", posStr(f.e.fset, p))
		}
	}
	var rt types.Type
	if cc.Signature().Results().Len() == 1 {
		rt = cc.Signature().Results().At(0).Type()
	} else if cc.Signature().Results().Len() > 1 {
		rt = cc.Signature().Results()
	}
	pos := token.NoPos
	if site != nil {
		pos = site.Pos()
	}
	// builtins
	if b, ok := cc.Value.(*ssa.Builtin); ok {
		return fr.builtin(b, cc, args, st, site, rt)
	}
	if v, ok := fr.atomicCall(cc, args, st); ok {
		return v
	}
	fr.lockHooks(cc, args, st, true)
	for _, a := range args {
		f.publish(a)
	}
	for _, a := range cc.Args {
		fr.guardedRefHandedOn(a, st, "passed to "+shortCallee(valueLabel(cc.Value)), pos)
	}
	if sc := cc.StaticCallee(); sc != nil && sc.Signature.Recv() != nil && len(cc.Args) >= 2 {
		if rn := types.TypeString(sc.Signature.Recv().Type(), nil); rn == "*sync.Map" {
			switch sc.Name() {
			case "Load", "Store", "LoadOrStore", "LoadAndDelete", "Delete", "Swap", "CompareAndSwap", "CompareAndDelete":
				fr.checkHashableKey(cc.Args[1], st, "sync.Map."+sc.Name(), pos)
			}
		}
	}
	// sweep kind "constfmt": the format of fmt.Errorf / Sprintf / Fprintf is a constant, so that
	// data (a peer's or handler's message) is only ever an operand of a verb, never the format
	if f.sweep["constfmt"] && !f.dry {
		if sc := cc.StaticCallee(); sc != nil && sc.Pkg != nil && sc.Pkg.Pkg.Path() == "fmt" {
			fi := -1
			switch sc.Name() {
			case "Errorf", "Sprintf", "Printf":
				fi = 0
			case "Fprintf":
				fi = 1
			}
			if fi >= 0 && fi < len(cc.Args) {
				goal := "false"
				if _, isConst := cc.Args[fi].(*ssa.Const); isConst {
					goal = "true"
				}
				f.oblige(st, fmt.Sprintf("%s#constant-format:%s", fnShortName(fr.fn), sc.Name()), "safety", f.sweepTags, goal,
					"the format string of fmt."+sc.Name()+" is not a constant: text taken from data is interpreted as formatting verbs", posStr(f.e.fset, pos))
			}
		}
	}
	var spec *FuncSpec
	var pnames []string
	var callee *ssa.Function
	var fvs []Val
	name := ""
	switch {
	case cc.IsInvoke():
		name = cc.Method.FullName()
		spec = f.e.specs.funcs[name]
		if spec == nil {
			// embedded interface methods: try by method name on the static receiver type
			rn := types.TypeString(cc.Value.Type(), nil)
			spec = f.e.specs.funcs["("+rn+")."+cc.Method.Name()]
		}
		if fr.spec != nil {
			if cs, ok := fr.spec.CallSpecs[valueLabel(cc.Value)+"."+cc.Method.Name()]; ok {
				spec = cs // a callspec of the enclosing function for this receiver's method
			}
		}
		pnames = append(pnames, "self")
		sig := cc.Method.Type().(*types.Signature)
		for i := 0; i < sig.Params().Len(); i++ {
			pnames = append(pnames, sig.Params().At(i).Name())
		}
	case cc.StaticCallee() != nil:
		callee = cc.StaticCallee()
		name = callee.String()
		spec = f.e.specFor(callee)
		for _, p := range callee.Params {
			pnames = append(pnames, p.Name())
		}
		if mc, ok := cc.Value.(*ssa.MakeClosure); ok {
			for _, b := range mc.Bindings {
				fvs = append(fvs, fr.val(b))
			}
		}
	default:
		// dynamic function value
		fv := fr.val(cc.Value)
		if ci, ok := f.closures[fv.Tm]; ok {
			callee = ci.fn
			fvs = ci.bind
			name = callee.String()
			spec = f.e.specFor(callee)
			for _, p := range callee.Params {
				pnames = append(pnames, p.Name())
			}
		} else {
			name = "dyn:" + valueLabel(cc.Value)
			spec, pnames = fr.callSpecFor(cc)
			// sweep kind "handlerresultro": what a user callback returned is handed on untouched - no element
			// of a slice it returned, and no field of an object it returned, is assigned to afterwards
			if f.sweep["handlerresultro"] && !f.dry {
				if v, isVal := site.(ssa.Value); isVal {
					var scan func(v ssa.Value, depth int)
					scan = func(v ssa.Value, depth int) {
						if v.Referrers() == nil || depth > 3 {
							return
						}
						for _, r := range *v.Referrers() {
							switch u := r.(type) {
							case *ssa.Extract:
								scan(u, depth+1)
							case *ssa.IndexAddr, *ssa.FieldAddr:
								av := r.(ssa.Value)
								if av.Referrers() != nil {
									for _, w := range *av.Referrers() {
										if stw, ok := w.(*ssa.Store); ok && stw.Addr == av {
											f.oblige(st, fmt.Sprintf("%s#handler-result-not-modified:%s", fnShortName(fr.fn), valueLabel(cc.Value)), "safety", f.sweepTags, "false",
												"a value returned by the user's handler is modified before it is sent", posStr(f.e.fset, stw.Pos()))
										}
									}
								}
							}
						}
					}
					scan(v, 0)
				}
			}
			// sweep kind "unlockedcallbacks": a function value that is not one of this function's own
			// closures (a user's handler, filter, middleware, hook) is called with none of the
			// module's locks held: user code may call back into the registry or block
			if f.sweep["unlockedcallbacks"] && !f.dry {
				libFunc := false
				if n, ok := cc.Value.Type().(*types.Named); ok && n.Obj().Pkg() != nil && !inModule(n.Obj().Pkg()) {
					libFunc = true // e.g. context.CancelFunc: library code, not a user callback
				}
				if _, own := f.closures[fv.Tm]; !own && !libFunc {
					lk := f.ghostKey("lockheld", sortInt, true, sortInt)
					f.oblige(st, fmt.Sprintf("%s#no-lock-held-while-user-code-runs:%s", fnShortName(fr.fn), valueLabel(cc.Value)), "safety", f.sweepTags,
						eq(f.hs.read(st.heap, lk), "((as const (Array Int Int)) 0)"), "a callback is invoked while a lock is held", posStr(f.e.fset, pos))
				}
			}
			if os.Getenv("GOVC_DEBUGCALLS") != "" {
				fmt.Fprintf(os.Stderr, "dyncall in %s: %s type %s spec=%v\n", fr.fn.Name(), name, cc.Value.Type(), spec != nil)
			}
			if spec == nil {
				if res, ok := fr.guardedDispatch(cc, fv, args, st, rt, site); ok {
					return res
				}
			}
			if spec != nil {
				// callspecs see the function value itself as "self"
				args = append([]Val{fv}, args...)
				pnames = append([]string{"self"}, pnames...)
			}
		}
	}
	for i, n := range pnames {
		if n == "" || n == "_" {
			pnames[i] = fmt.Sprintf("a%d", i)
		}
	}
	if spec != nil && len(spec.Params) > 0 {
		pnames = spec.Params
	}
	var result Val
	switch {
	case spec != nil && !spec.Inline:
		spec.Used = true
		result = fr.applySpec(spec, name, pnames, args, rt, st, site)
	case callee != nil && len(callee.Blocks) > 0 && (spec != nil && spec.Inline || callee.Parent() != nil && f.inlineDepth < 3 || f.autoInline(callee)):
		fr.pendingSite = site
		result = fr.inline(callee, args, fvs, st, rt)
		fr.pendingSite = nil
	default:
		// unknown callee: fresh result, heap havoc
		f.abstr["call-unknown:"+shortCallee(name)]++
		preH := st.heap
		st.heap = f.hs.havocAll(st.heap)
		st.heap.byCall = true
		st.heap.keepPrivate = !fr.calleeIsWriter(name)
		if st.heap.keepPrivate {
			fr.keepOwnedChannels(preH, st)
		}
		fr.keepMonotone(preH, st)
		fr.havocWritersPassed(args, st)
		if callee == nil || !(callee.Pkg != nil && inModule(callee.Pkg.Pkg) || callee.Parent() != nil) {
			fr.keepFreeVarCells(preH, st, args)
		}
		if callee == nil || !(callee.Pkg != nil && inModule(callee.Pkg.Pkg) || callee.Parent() != nil) || !f.e.mayClose(callee) {
			// code outside the module, callbacks, and module functions that never reach a close() leave channels as they are
			st.heap.keep = map[string]bool{"G.chan.closed": true}
		}
		if rt != nil {
			result = f.freshVal("res."+shortCallee(name), rt)
			f.assumeTypeRange(st, result)
		} else {
			result = Val{K: KUnit}
		}
	}
	fr.lockHooks(cc, args, st, false)
	_ = pos
	return result
}

func shortCallee(n string) string {
	n = strings.ReplaceAll(n, modulePath+"/internal/", "")
	n = strings.ReplaceAll(n, modulePath, "mcp")
	return n
}

// autoInline: small loop-free helpers of the module that have no contract are
// inlined (and listed as such) so that a harmless extraction of a helper does
// not turn into an alarm.
func (f *FnCtx) autoInline(fn *ssa.Function) bool {
	if f.inlineDepth >= 3 || fn.Pkg == nil || !inModule(fn.Pkg.Pkg) || len(fn.Blocks) == 0 {
		return false
	}
	n := 0
	for _, b := range fn.Blocks {
		for _, s := range b.Succs {
			if isBackEdge(b, s) {
				return false
			}
		}
		for _, in := range b.Instrs {
			if _, ok := in.(*ssa.DebugRef); !ok {
				n++
			}
			switch in.(type) {
			case *ssa.Go, *ssa.Defer:
				return false
			}
		}
	}
	return n <= 80
}

// callSpecFor finds a callspec for a dynamic callee: by parameter name, by
// struct field ("T.field") or by named function type.
func (fr *frame) callSpecFor(cc *ssa.CallCommon) (*FuncSpec, []string) {
	f := fr.f
	sig := cc.Signature()
	var pn []string
	for i := 0; i < sig.Params().Len(); i++ {
		pn = append(pn, sig.Params().At(i).Name())
	}
	var keys []string
	switch v := cc.Value.(type) {
	case *ssa.Parameter:
		keys = append(keys, v.Name())
	case *ssa.FreeVar:
		keys = append(keys, v.Name())
	case *ssa.UnOp:
		if fa, ok := v.X.(*ssa.FieldAddr); ok {
			T := fa.X.Type().Underlying().(*types.Pointer).Elem()
			fld := T.Underlying().(*types.Struct).Field(fa.Field).Name()
			if n, ok := T.(*types.Named); ok {
				keys = append(keys, n.Obj().Name()+"."+fld)
			}
			keys = append(keys, fld)
		} else if a, ok := v.X.(*ssa.Alloc); ok && a.Comment != "" {
			keys = append(keys, a.Comment)
		} else if fv, ok := v.X.(*ssa.FreeVar); ok {
			keys = append(keys, fv.Name())
		}
	case *ssa.Field:
		T := v.X.Type()
		fld := T.Underlying().(*types.Struct).Field(v.Field).Name()
		if n, ok := T.(*types.Named); ok {
			keys = append(keys, n.Obj().Name()+"."+fld)
		}
		keys = append(keys, fld)
	case *ssa.Lookup:
		keys = append(keys, valueLabel(v.X)+"[]")
	}
	if n, ok := cc.Value.Type().(*types.Named); ok {
		keys = append(keys, n.Obj().Name())
	}
	for _, k := range keys {
		if fr.spec != nil {
			if cs, ok := fr.spec.CallSpecs[k]; ok {
				return cs, pn
			}
		}
	}
	for _, k := range keys {
		if cs, ok := f.e.specs.csByKey[k]; ok {
			return cs, pn
		}
	}
	return nil, pn
}

func (fr *frame) applySpec(spec *FuncSpec, name string, pnames []string, args []Val, rt types.Type, st *bstate, site ssa.Instruction) Val {
	f := fr.f
	pre := st.heap
	vars := map[string]Val{}
	for i, n := range pnames {
		if i < len(args) {
			vars[n] = args[i]
		}
	}
	if cf := f.e.funcsByName[name]; cf != nil && !spec.IsCallSpec {
		f.e.bindMu.Lock()
		_, pal := f.e.aliases(cf)
		f.e.bindMu.Unlock()
		for n, i := range pal {
			if i < len(args) {
				vars[n] = args[i]
			}
		}
	}
	sn := shortCallee(name)
	env := f.newEnv(spec.Pkg, pre, pre, vars, nil)
	ord := ""
	if site != nil {
		ord = "@" + posStr(f.e.fset, site.Pos())
	}
	_ = ord
	for _, r := range spec.Requires {
		if !f.e.active(r.Tags) {
			continue
		}
		v, err := env.evalBool(r.E)
		if err != nil {
			f.fail("%s: requires of %s at call: %v", r.Line, sn, err)
			continue
		}
		tags := r.Tags
		f.oblige(st, fmt.Sprintf("%s#call:%s:requires:%s", fnShortName(fr.fn), sn, clauseLabel(r)), "call-requires", tags, v, r.Src, r.Line)
	}
	for _, h := range spec.Holds {
		a, err := env.evalAddr(h.E)
		if err != nil {
			f.fail("%s: holds of %s at call: %v", spec.Line, sn, err)
			continue
		}
		goal := app(">=", f.lockHeld(st.heap, a), "1")
		if h.Mode == 2 {
			goal = eq(f.lockHeld(st.heap, a), "2")
		}
		f.oblige(st, fmt.Sprintf("%s#call:%s:holds:%s", fnShortName(fr.fn), sn, strings.Join(strings.Fields(h.Src), "")), "call-requires", nil, goal, "caller holds "+h.Src, spec.Line)
	}
	// frame
	switch {
	case spec.Pure:
	case spec.ModAll || !spec.HasMod:
		st.heap = f.hs.havocAll(st.heap)
		st.heap.byCall = true
		if spec.Extern || spec.IsCallSpec {
			// library code and callbacks cannot close channels private to the module's types
			st.heap.keep = map[string]bool{"G.chan.closed": true}
		} else if fn := f.e.funcsByName[name]; fn != nil && !f.e.mayClose(fn) {
			st.heap.keep = map[string]bool{"G.chan.closed": true}
		}
		st.heap.inclStable = spec.ModAll && len(spec.Modifies) == 0 && !spec.Extern && !spec.Trusted // library functions know nothing of the ghost model; "modifies *" alone: everything; with a list: everything but only the listed stable ghosts
		st.heap.keepPrivate = !fr.calleeIsWriter(name)
		if st.heap.keepPrivate {
			fr.keepOwnedChannels(pre, st)
		}
		fr.keepMonotone(pre, st)
		for _, m := range spec.Modifies {
			nh, err := env.havocLocation(st.heap, m)
			if err != nil {
				f.fail("%s: modifies of %s: %v", spec.Line, sn, err)
				break
			}
			st.heap = nh
		}
	default:
		for _, m := range spec.Modifies {
			nh, err := env.havocLocation(st.heap, m)
			if err != nil {
				f.fail("%s: modifies of %s: %v", spec.Line, sn, err)
				st.heap = f.hs.havocAll(st.heap)
				break
			}
			st.heap = nh
		}
	}
	for _, gname := range spec.Counted {
		g, ok := f.e.specs.ghosts[gname]
		if !ok || len(g.Params) != 0 {
			f.fail("%s: counted %s: no such scalar ghost", spec.Line, gname)
			continue
		}
		key := f.ghostKey(g.Name, sortInt, false, "")
		st.heap = f.hs.write(st.heap, key, f.c.define("cnt."+gname, sortInt, app("+", f.hs.read(pre, key), "1")))
	}
	// result
	var result Val
	if rt != nil {
		if spec.Func && allScalar(args) {
			if spec.IsCallSpec {
				sn = "cs." + spec.Key
			}
			result = f.pureApp(sn, args, rt)
		} else {
			result = f.freshVal("res."+sn, rt)
			f.assumeTypeRange(st, result)
		}
	} else {
		result = Val{K: KUnit}
	}
	var rvals []Val
	if result.K == KTuple {
		rvals = result.Fs
	} else if result.K != KUnit {
		rvals = []Val{result}
	}
	for _, rec := range spec.Records {
		g, ok := f.e.specs.ghosts[rec[0]]
		if !ok || len(g.Params) != 0 {
			f.fail("%s: records %s: no such scalar ghost", spec.Line, rec[0])
			continue
		}
		gt, err := f.e.resolveType(g.Pkg, g.T)
		if err != nil {
			continue
		}
		var v Val
		found := false
		if strings.HasPrefix(rec[1], "ret") {
			idx := 0
			fmt.Sscanf(rec[1][3:], "%d", &idx)
			if idx < len(rvals) {
				v, found = rvals[idx], true
			}
		} else if pv, ok := vars[rec[1]]; ok {
			v, found = pv, true
		}
		if !found {
			f.fail("%s: records %s %s: no such parameter/result", spec.Line, rec[0], rec[1])
			continue
		}
		if kindOf(gt) == KAny && v.K != KAny && v.T != nil {
			v = f.makeIface(st, v, v.T)
		}
		if v.K != kindOf(gt) {
			f.fail("%s: records %s %s: kind mismatch", spec.Line, rec[0], rec[1])
			continue
		}
		key := f.ghostKey(g.Name, sortOfType(gt), false, "")
		st.heap = f.hs.write(st.heap, key, v.Tm)
	}
	for _, cw := range spec.CountedWhen {
		g, ok := f.e.specs.ghosts[cw.Ghost]
		if !ok || len(g.Params) != 0 {
			f.fail("%s: counted %s: no such scalar ghost", spec.Line, cw.Ghost)
			continue
		}
		cenv := f.newEnv(spec.Pkg, st.heap, pre, vars, rvals)
		cenv.atCallSite = true
		cv, err := cenv.evalBool(cw.E)
		if err != nil {
			f.fail("%s: counted %s: %v", spec.Line, cw.Src, err)
			continue
		}
		key := f.ghostKey(g.Name, sortInt, false, "")
		st.heap = f.hs.write(st.heap, key, f.c.define("cnt."+cw.Ghost, sortInt, app("+", f.hs.read(pre, key), ite(cv, "1", "0"))))
	}
	post := f.newEnv(spec.Pkg, st.heap, pre, vars, rvals)
	post.atCallSite = true
	assumedEnsures := false
	for _, c := range spec.Ensures {
		if !f.e.active(c.Tags) {
			continue
		}
		v, err := post.evalBool(c.E)
		if err != nil && strings.Contains(err.Error(), errSkipClause.Error()) {
			continue
		}
		if err != nil {
			f.fail("%s: ensures of %s at call: %v", c.Line, sn, err)
			continue
		}
		f.assume(st, v, "ensures of "+sn+": "+c.Src)
		assumedEnsures = true
	}
	if assumedEnsures && (f.e.thorough || spec.RiskyFrame) && !f.dry && !spec.Extern {
		// vacuity cover (thorough tier): the callee's postconditions, as assumed here, are consistent with
		// what is known at this call - the code behind the call stays reachable
		f.seq++
		n := f.oblNames["cover:after-call:"+sn]
		f.oblNames["cover:after-call:"+sn] = n + 1
		f.obls = append(f.obls, &Obligation{Name: fmt.Sprintf("%s#cover:after-call:%s#%d", fnShortName(fr.fn), sn, n+1), Kind: "cover", Cover: true,
			Src: "postconditions of " + sn + " satisfiable at the call", Line: spec.Line, Func: fr.fn.String(), seg: st.seg, seq: f.seq, goal: st.reach, f: f})
	}
	if !spec.Extern && !spec.IsCallSpec && !spec.Trusted {
		f.usedSpecs[name] = true
	}
	if spec.Extern || spec.IsCallSpec || spec.Trusted {
		f.trusted[sn] = true
	}
	f.exact["call-contract"]++
	return result
}

func allScalar(vs []Val) bool {
	for _, v := range vs {
		if v.K == KAddr || v.K == KUnit {
			return false
		}
	}
	return true
}

func flatten(v Val, out *[]Val) {
	switch v.K {
	case KStruct, KTuple:
		for _, x := range v.Fs {
			flatten(x, out)
		}
	case KUnit:
	default:
		*out = append(*out, v)
	}
}

// pureApp: result of a deterministic function = uninterpreted function of its arguments.
func (f *FnCtx) pureApp(name string, args []Val, rt types.Type) Val {
	var flat []Val
	for _, a := range args {
		flatten(a, &flat)
	}
	var sorts, terms []string
	for _, a := range flat {
		sorts = append(sorts, kindSort(a.K))
		terms = append(terms, a.Tm)
	}
	mk := func(suffix string, t types.Type) Val {
		fn := "pf." + sanitize(name) + suffix
		k := kindOf(t)
		if len(terms) == 0 {
			f.c.declConst(fn, kindSort(k))
			return Val{K: k, T: t, Tm: fn}
		}
		f.c.declFun(fn, sorts, kindSort(k))
		return Val{K: k, T: t, Tm: app(fn, terms...)}
	}
	if tp, ok := rt.(*types.Tuple); ok {
		v := Val{K: KTuple, T: rt}
		for i := 0; i < tp.Len(); i++ {
			v.Fs = append(v.Fs, mk(fmt.Sprintf(".%d", i), tp.At(i).Type()))
		}
		return v
	}
	if kindOf(rt) == KStruct {
		st := rt.Underlying().(*types.Struct)
		v := Val{K: KStruct, T: rt}
		for i := 0; i < st.NumFields(); i++ {
			if isScalarKind(kindOf(st.Field(i).Type())) {
				v.Fs = append(v.Fs, mk("."+st.Field(i).Name(), st.Field(i).Type()))
			} else {
				v.Fs = append(v.Fs, f.freshVal("pf", st.Field(i).Type()))
			}
		}
		return v
	}
	return mk("", rt)
}

func (fr *frame) inline(fn *ssa.Function, args, fvs []Val, st *bstate, rt types.Type) Val {
	f := fr.f
	for _, s := range f.inlineStack {
		if s == fn {
			f.abstr["call-recursive:"+fn.Name()]++
			st.heap = f.hs.havocAll(st.heap)
			if rt != nil {
				return f.freshVal("res", rt)
			}
			return Val{K: KUnit}
		}
	}
	f.inlineStack = append(f.inlineStack, fn)
	f.inlineDepth++
	wasLoop := f.inlineInLoop
	if fr.cur != nil && fr.inLoopCur() {
		f.inlineInLoop = true
	}
	for len(fvs) < len(fn.FreeVars) {
		fvs = append(fvs, f.freshVal("fv", fn.FreeVars[len(fvs)].Type()))
	}
	nf := f.newFrame(fn, args, fvs, false, fr.depth+1)
	nf.oldHeap = st.heap
	nf.parent, nf.parentSite = fr, fr.pendingSite
	entry := &bstate{reach: st.reach, heap: st.heap, seg: f.newSeg(st.seg)}
	if fn.Parent() == nil {
		nf.boundaryInvariants(entry, fr)
	}
	ret := nf.run(entry)
	f.inlineInLoop = wasLoop
	f.inlineDepth--
	f.inlineStack = f.inlineStack[:len(f.inlineStack)-1]
	f.inlined[shortCallee(fn.String())] = true
	if ret == nil {
		st.reach = "false"
		if rt != nil {
			return f.freshVal("res", rt)
		}
		return Val{K: KUnit}
	}
	st.reach = ret.st.reach
	st.heap = ret.st.heap
	st.seg = f.newSeg(ret.st.seg)
	switch len(ret.vals) {
	case 0:
		return Val{K: KUnit}
	case 1:
		return ret.vals[0]
	}
	return Val{K: KTuple, T: rt, Fs: ret.vals}
}

func (fr *frame) inLoopCur() bool { return false }

// ---------------------------------------------------------------------------
// builtins

func (fr *frame) builtin(b *ssa.Builtin, cc *ssa.CallCommon, args []Val, st *bstate, site ssa.Instruction, rt types.Type) Val {
	f := fr.f
	pos := ""
	if site != nil {
		pos = posStr(f.e.fset, site.Pos())
	}
	switch b.Name() {
	case "len":
		a := args[0]
		switch t := cc.Args[0].Type().Underlying().(type) {
		case *types.Basic:
			f.exact["len"]++
			return intVal(app("str.len", a.Tm))
		case *types.Slice:
			f.exact["len"]++
			l := f.sliceLen(a.Tm)
			f.assume(st, and(app(">=", l, "0"), app("<=", l, "9223372036854775807"), implies(eq(a.Tm, "0"), eq(l, "0"))), "0 <= len(slice) <= maxint")
			return intVal(l)
		case *types.Map:
			_, dk, _ := f.mapKeys(t)
			if dk != "" {
				fr.checkGuardedValue(cc.Args[0], st, false, site.Pos())
				l := app(f.mapLenFn(t), app("select", f.hs.read(st.heap, dk), a.Tm))
				l = ite(eq(a.Tm, "0"), "0", l)
				ln := f.c.define("maplen", sortInt, l)
				f.assume(st, app(">=", ln, "0"), "len(map) >= 0")
				f.exact["len"]++
				return intVal(ln)
			}
		}
		f.abstr["len-other"]++
		v := intVal(f.c.freshConst("len", sortInt))
		f.assume(st, app(">=", v.Tm, "0"), "len >= 0")
		return v
	case "cap":
		f.exact["cap"]++
		l := f.sliceCap(args[0].Tm)
		f.assume(st, app(">=", l, "0"), "cap >= 0")
		return intVal(l)
	case "append":
		return fr.appendBuiltin(cc, args, st, rt)
	case "delete":
		m, k := args[0], args[1]
		mt := cc.Args[0].Type().Underlying().(*types.Map)
		fr.checkGuardedValue(cc.Args[0], st, true, site.Pos())
		if u, ok := cc.Args[0].(*ssa.UnOp); ok && u.Op == token.MUL {
			fr.checkFieldContents(u.X, st, site.Pos())
		}
		_, dk, _ := f.mapKeys(mt)
		if dk == "" {
			f.abstr["delete-compositekey"]++
			return Val{K: KUnit}
		}
		dom := f.hs.read(st.heap, dk)
		oldDom := app("select", dom, m.Tm)
		nd := app("store", dom, m.Tm, app("store", oldDom, k.Tm, "false"))
		nh := f.hs.write(st.heap, dk, f.c.define("Hw."+dk, f.hs.sorts[dk], nd))
		nh.obj = m.Tm
		st.heap = nh
		lenFn := f.mapLenFn(mt)
		f.assume(st, eq(app(lenFn, app("store", oldDom, k.Tm, "false")), app("-", app(lenFn, oldDom), ite(app("select", oldDom, k.Tm), "1", "0"))), "map length after delete")
		f.exact["delete"]++
		return Val{K: KUnit}
	case "close":
		ch := args[0]
		closed := f.ghostAt(st.heap, chanClosedGhost(cc.Args[0].Type()), sortBool, ch.Tm)
		if f.sweep["close"] && !fr.recovers() {
			f.oblige(st, fmt.Sprintf("%s#close-once:%s", fnShortName(fr.fn), valueLabel(cc.Args[0])), "safety", f.sweepTags,
				and(not(closed), not(eq(ch.Tm, "0"))), "close of a channel that is not already closed (and not nil)", pos)
		}
		st.heap = f.setGhostAt(st.heap, chanClosedGhost(cc.Args[0].Type()), sortBool, ch.Tm, "true")
		f.exact["close"]++
		return Val{K: KUnit}
	case "copy":
		f.abstr["copy"]++
		if sl, ok := cc.Args[0].Type().Underlying().(*types.Slice); ok && isScalarKind(kindOf(sl.Elem())) {
			key := f.elemKey(f.sliceBase(args[0].Tm), sl.Elem())
			st.heap = f.hs.havocKeys(st.heap, map[string]bool{key: true})
		} else {
			st.heap = f.hs.havocAll(st.heap)
		}
		v := intVal(f.c.freshConst("copied", sortInt))
		f.assume(st, app(">=", v.Tm, "0"), "copy >= 0")
		return v
	case "print", "println":
		return Val{K: KUnit}
	case "recover":
		f.abstr["recover"]++
		return f.freshVal("recovered", rt)
	case "min", "max":
		if len(args) == 2 && args[0].K == KInt {
			op := "<="
			if b.Name() == "max" {
				op = ">="
			}
			return Val{K: KInt, T: rt, Tm: ite(app(op, args[0].Tm, args[1].Tm), args[0].Tm, args[1].Tm)}
		}
	}
	f.abstr["builtin-"+b.Name()]++
	if rt != nil {
		return f.freshVal("builtin", rt)
	}
	return Val{K: KUnit}
}

func (fr *frame) appendBuiltin(cc *ssa.CallCommon, args []Val, st *bstate, rt types.Type) Val {
	f := fr.f
	s := args[0]
	sl, ok := cc.Args[0].Type().Underlying().(*types.Slice)
	if !ok {
		f.abstr["append-nonslice"]++
		return f.freshVal("append", rt)
	}
	et := sl.Elem()
	// literal-length second argument?
	n := -1
	if len(cc.Args) == 2 {
		if sx, ok := cc.Args[1].(*ssa.Slice); ok {
			if al, ok := sx.X.(*ssa.Alloc); ok {
				if at, ok := al.Type().Underlying().(*types.Pointer).Elem().Underlying().(*types.Array); ok && sx.Low == nil && sx.High == nil {
					n = int(at.Len())
				}
			}
		}
		if c, ok := cc.Args[1].(*ssa.Const); ok && c.Value == nil {
			n = 0
		}
	}
	oldLen := f.sliceLen(s.Tm)
	f.assume(st, and(app(">=", oldLen, "0"), implies(eq(s.Tm, "0"), eq(oldLen, "0"))), "len(slice) >= 0")
	nb := f.newAllocRef(true)
	var addLen string
	if n >= 0 {
		addLen = intLit(int64(n))
	} else if len(args) > 1 {
		if kindOf(cc.Args[1].Type()) == KString {
			addLen = f.c.freshConst("appendlen", sortInt)
			f.assume(st, app(">=", addLen, "0"), "appended length")
		} else {
			addLen = f.sliceLen(args[1].Tm)
			f.assume(st, app(">=", addLen, "0"), "len(slice) >= 0")
		}
	} else {
		addLen = "0"
	}
	off := f.sliceOff(s.Tm)
	res := f.newSlice(st, rt, nb, ite(eq(s.Tm, "0"), "0", off), app("+", oldLen, addLen))
	if isScalarKind(kindOf(et)) && n >= 0 {
		key := f.elemKey(nb, et)
		arr := f.hs.read(st.heap, key)
		srcKey := f.elemKey(f.sliceBase(s.Tm), et)
		content := app("select", f.hs.read(st.heap, srcKey), f.sliceBase(s.Tm))
		roff := ite(eq(s.Tm, "0"), "0", off)
		for j := 0; j < n; j++ {
			t := args[1]
			tk := f.elemKey(f.sliceBase(t.Tm), et)
			ev := app("select", app("select", f.hs.read(st.heap, tk), f.sliceBase(t.Tm)), app("+", f.sliceOff(t.Tm), intLit(int64(j))))
			content = app("store", content, app("+", roff, oldLen, intLit(int64(j))), ev)
		}
		nh := f.hs.write(st.heap, key, f.c.define("Hw."+key, f.hs.sorts[key], app("store", arr, nb, content)))
		nh.obj = nb
		st.heap = nh
		f.exact["append"]++
	} else if isScalarKind(kindOf(et)) && len(args) > 1 && kindOf(cc.Args[1].Type()) != KString {
		// append(s, t...) with a slice of unknown length: the new backing array agrees with s's below the old
		// length and holds t's elements, in order, behind it (stated with a quantifier over a fresh array)
		key := f.elemKey(nb, et)
		arr := f.hs.read(st.heap, key)
		srcKey := f.elemKey(f.sliceBase(s.Tm), et)
		oldContent := app("select", f.hs.read(st.heap, srcKey), f.sliceBase(s.Tm))
		roff := ite(eq(s.Tm, "0"), "0", off)
		t := args[1]
		tk := f.elemKey(f.sliceBase(t.Tm), et)
		tContent := app("select", f.hs.read(st.heap, tk), f.sliceBase(t.Tm))
		ac := f.c.freshConst("appended", "(Array Int "+sortOfType(et)+")")
		start := app("+", roff, oldLen)
		f.assume(st, "(forall ((j Int)) (=> (and (<= 0 j) (< j "+addLen+")) (= (select "+ac+" (+ "+start+" j)) (select "+tContent+" (+ "+f.sliceOff(t.Tm)+" j)))))", "append(s, t...): the appended elements are t's, in order")
		f.assume(st, "(forall ((j Int)) (=> (< j "+start+") (= (select "+ac+" j) (select "+oldContent+" j))))", "append(s, t...): the elements of s are kept")
		nh := f.hs.write(st.heap, key, f.c.define("Hw."+key, f.hs.sorts[key], app("store", arr, nb, ac)))
		nh.obj = nb
		st.heap = nh
		f.exact["append-slice"]++
	} else {
		f.abstr["append-contents"]++
	}
	return res
}

// ---------------------------------------------------------------------------
// defers

func (fr *frame) deferInstr(x *ssa.Defer, st *bstate) {
	f := fr.f
	if fr.inLoop(x.Block()) {
		f.abstr["defer-in-loop"]++
		f.notes = append(f.notes, "defer inside a loop in "+fnShortName(fr.fn)+": outside the subset, its effects are not modelled")
		return
	}
	key := fmt.Sprintf("G.defer.%d.%d", fr.id, len(fr.defers))
	f.hs.regKey(key, sortBool)
	f.hs.final[key] = true
	var args []Val
	if x.Call.IsInvoke() {
		args = append(args, fr.val(x.Call.Value))
	}
	for _, a := range x.Call.Args {
		args = append(args, fr.val(a))
	}
	fr.defers = append(fr.defers, &deferSite{instr: x, armed: key, args: args})
	st.heap = f.hs.write(st.heap, key, "true")
	f.exact["Defer"]++
}

func (fr *frame) runDefers(st *bstate) {
	f := fr.f
	for i := len(fr.defers) - 1; i >= 0; i-- {
		d := fr.defers[i]
		armed := f.hs.read(st.heap, d.armed)
		if armed == "false" {
			continue
		}
		// entry heap for the key must read as false: see armedDefault
		armedT := armed
		if !strings.HasPrefix(armed, "true") && armed != "true" {
			armedT = f.c.define("armed", sortBool, armed)
		}
		// run the deferred call under (reach && armed), then merge
		sub := &bstate{reach: and(st.reach, armedT), heap: st.heap, seg: f.newSeg(st.seg)}
		savedCur := fr.cur
		fr.cur = sub
		fr.applyCall(&d.instr.Call, sub, d.instr, d.args)
		fr.cur = savedCur
		if armedT == "true" {
			st.reach, st.heap, st.seg = sub.reach, sub.heap, f.newSeg(sub.seg)
			continue
		}
		skip := and(st.reach, not(armedT))
		nr := f.c.define("reach.afterdefer", sortBool, or(sub.reach, skip))
		st.heap = f.hs.merge([]*Heap{sub.heap, st.heap}, []string{sub.reach, skip})
		st.seg = f.newSeg(sub.seg, st.seg)
		st.reach = nr
	}
	f.exact["RunDefers"]++
}

// ---------------------------------------------------------------------------
// lock discipline

// lockHooks: around calls to sync.(RW)Mutex methods on a field of a struct
// with a type spec: after acquiring, havoc the guarded fields (another
// goroutine may have changed them) — done after the extern contract applied.
func (fr *frame) lockHooks(cc *ssa.CallCommon, args []Val, st *bstate, before bool) {
	f := fr.f
	fn := cc.StaticCallee()
	if fn == nil || fn.Pkg == nil || fn.Pkg.Pkg.Path() != "sync" {
		return
	}
	acquire := fn.Name() == "Lock" || fn.Name() == "RLock"
	release := fn.Name() == "Unlock" || fn.Name() == "RUnlock"
	if !acquire && !release || len(cc.Args) == 0 {
		return
	}
	fa, ok := cc.Args[0].(*ssa.FieldAddr)
	if !ok {
		return
	}
	T := fa.X.Type().Underlying().(*types.Pointer).Elem()
	ts := f.e.typeSpecOf(T)
	if ts == nil {
		return
	}
	stt := T.Underlying().(*types.Struct)
	lockName := stt.Field(fa.Field).Name()
	base := fr.val(fa.X)
	if before {
		if release && !f.dry {
			// monitor invariants are re-established before the lock is released
			for _, li := range ts.LockInvs {
				if li.Lock != lockName || !f.e.active(li.C.Tags) || len(li.C.Tags) == 0 && f.e.curProp != "" {
					continue
				}
				env := f.newEnv(ts.Pkg, st.heap, fr.oldHeap, map[string]Val{"self": base}, nil)
				v, err := env.evalBool(li.C.E)
				if err != nil {
					f.fail("%s: lockinv: %v", li.C.Line, err)
					continue
				}
				if o := f.oblige(st, fmt.Sprintf("%s#lock-invariant:%s", fnShortName(fr.fn), clauseLabel(li.C)), "lock-invariant", li.C.Tags, v, li.C.Src, li.C.Line); o != nil {
					o.clause = li.C
				}
			}
		}
		return
	}
	// channels kept in the fields this lock guards: when they have closers, their
	// open/closed state is only stable while the lock is held
	for _, g := range ts.Guarded {
		if g.Lock != lockName {
			continue
		}
		for _, fldName := range g.Fields {
			for i := 0; i < stt.NumFields(); i++ {
				if stt.Field(i).Name() != fldName {
					continue
				}
				ct := chanTypeIn(stt.Field(i).Type())
				if ct == nil {
					continue
				}
				ci := f.e.closers()
				if len(ci.byField[ts.Pkg+"."+ts.Name+"."+fldName]) == 0 && len(ci.unknown[typeKey(ct.Elem())]) == 0 {
					continue
				}
				key := f.ghostKey(chanClosedGhost(ct), sortBool, true, sortInt)
				before := f.hs.read(st.heap, key)
				st.heap = f.hs.havocKeys(st.heap, map[string]bool{key: true})
				// channels made by this function and not yet handed to anyone keep their state
				for _, lc := range f.localChans {
					if !lc.published && chanClosedGhost(lc.t) == chanClosedGhost(ct) {
						f.assume(st, eq(app("select", f.hs.read(st.heap, key), lc.ref), app("select", before, lc.ref)), "a channel made here and not yet published is not closed by anyone else")
					}
				}
			}
		}
	}
	if release {
		return
	}
	for _, g := range ts.Guarded {
		if g.Lock != lockName {
			continue
		}
		for _, fldName := range g.Fields {
			for i := 0; i < stt.NumFields(); i++ {
				if stt.Field(i).Name() != fldName {
					continue
				}
				ft := stt.Field(i).Type()
				if !isScalarKind(kindOf(ft)) {
					continue
				}
				isFinalRef := false
				for _, fn := range ts.Final {
					if fn == fldName {
						isFinalRef = true
					}
				}
				key := f.fieldKey(base.Tm, T, i)
				cur := app("select", f.hs.read(st.heap, key), base.Tm)
				if !isFinalRef {
					arr := f.hs.read(st.heap, key)
					nv := f.c.freshConst("interf."+fldName, sortOfType(ft))
					nh := f.hs.write(st.heap, key, f.c.define("Hi."+key, f.hs.sorts[key], app("store", arr, base.Tm, nv)))
					nh.obj = base.Tm
					nh.interf = true
					st.heap = nh
					cur = nv
				}
				// contents of a guarded map that stays the same object (if the field itself was
				// replaced, the new object's contents are unknown anyway)
				if mt, ok := ft.Underlying().(*types.Map); ok && isFinalRef {
					vk, dk, okv := f.mapKeys(mt)
					if dk != "" {
						arr := f.hs.read(st.heap, dk)
						nh := f.hs.write(st.heap, dk, f.c.define("Hi."+dk, f.hs.sorts[dk], app("store", arr, cur, f.c.freshConst("interf.dom", arrayElemSort(f.hs.sorts[dk])))))
						nh.obj = cur
						nh.interf = true
						st.heap = nh
					}
					if okv {
						arr := f.hs.read(st.heap, vk)
						nh := f.hs.write(st.heap, vk, f.c.define("Hi."+vk, f.hs.sorts[vk], app("store", arr, cur, f.c.freshConst("interf.val", arrayElemSort(f.hs.sorts[vk])))))
						nh.obj = cur
						nh.interf = true
						st.heap = nh
					}
				}
			}
		}
	}
	if fr.top || fr.depth <= 1 {
		f.lastLockHeap = st.heap // snapshot for atlock(...)
	}
	// invariants "under lock" are assumed after acquisition
	for _, inv := range ts.Invs {
		env := f.newEnv(ts.Pkg, st.heap, fr.oldHeap, map[string]Val{"self": base}, nil)
		v, err := env.evalBool(inv.E)
		if err != nil {
			f.fail("%s: invariant: %v", inv.Line, err)
			continue
		}
		f.assume(st, v, "type invariant after lock: "+inv.Src)
	}
	for _, li := range ts.LockInvs {
		if li.Lock != lockName {
			continue
		}
		env := f.newEnv(ts.Pkg, st.heap, fr.oldHeap, map[string]Val{"self": base}, nil)
		v, err := env.evalBool(li.C.E)
		if err != nil {
			f.fail("%s: lockinv: %v", li.C.Line, err)
			continue
		}
		f.assume(st, v, "monitor invariant after acquiring "+lockName+": "+li.C.Src)
	}
}

func (f *FnCtx) lockHeld(h *Heap, m string) string {
	return f.ghostAt(h, "lockheld", sortInt, m)
}

// checkGuardedAccess: addr is the address being loaded/stored.
func (fr *frame) checkGuardedAccess(addr ssa.Value, st *bstate, write bool, pos token.Pos) {
	f := fr.f
	if f.dry {
		return
	}
	fa, ok := addr.(*ssa.FieldAddr)
	if !ok {
		return
	}
	T := fa.X.Type().Underlying().(*types.Pointer).Elem()
	ts := f.e.typeSpecOf(T)
	if ts == nil || len(ts.Guarded) == 0 {
		return
	}
	stt := T.Underlying().(*types.Struct)
	fname := stt.Field(fa.Field).Name()
	for _, g := range ts.Guarded {
		for _, gf := range g.Fields {
			if gf != fname {
				continue
			}
			li := -1
			for i := 0; i < stt.NumFields(); i++ {
				if stt.Field(i).Name() == g.Lock {
					li = i
				}
			}
			if li < 0 {
				f.fail("%s: lock field %s not found in %s", ts.Line, g.Lock, ts.Name)
				return
			}
			base := fr.val(fa.X)
			if strings.HasPrefix(base.Tm, "(- ") || strings.HasPrefix(base.Tm, "alloc!") {
				return // object under construction in this call
			}
			root := fr.fn
			for root.Parent() != nil {
				root = root.Parent()
			}
			for _, c := range append(append([]string{}, ts.Ctors...), ts.Inits...) {
				if c == root.Name() {
					return // constructor / construction-time setter: the object is not yet shared
				}
			}
			lockAddr := f.faddr(base.Tm, T, li)
			if _, isPtr := stt.Field(li).Type().Underlying().(*types.Pointer); isPtr {
				// the lock is referenced through a pointer field (a lock shared with another object)
				lockAddr = app("select", f.hs.read(st.heap, f.fieldKey(base.Tm, T, li)), base.Tm)
			}
			held := f.lockHeld(st.heap, lockAddr)
			mode := "read"
			goal := app(">=", held, "1")
			if write {
				mode = "write"
				goal = eq(held, "2")
			}
			f.oblige(st, fmt.Sprintf("%s#guarded:%s.%s:%s", fnShortName(fr.fn), ts.Name, fname, mode), "guarded", g.Tags, goal,
				fmt.Sprintf("%s of %s.%s requires %s.%s held", mode, ts.Name, fname, ts.Name, g.Lock), posStr(f.e.fset, pos))
		}
	}
}

// checkGuardedValue: v is a map/slice value; if it was loaded from a guarded field, operating on it needs the lock.
func (fr *frame) checkGuardedValue(v ssa.Value, st *bstate, write bool, pos token.Pos) {
	if u, ok := v.(*ssa.UnOp); ok && u.Op == token.MUL {
		if write {
			fr.checkGuardedAccess(u.X, st, true, pos)
		} else {
			fr.checkGuardedAccess(u.X, st, false, pos)
		}
	}
}

// ---------------------------------------------------------------------------
// static notes for C08-style obligations (filled in by later stages)

func (fr *frame) noteGo(x *ssa.Go, st *bstate) {
	f := fr.f
	fr.beforeAsserts(&x.Call, st, x) // "before call F#n" also anchors on `go F(...)`
	for _, a := range x.Call.Args {
		f.publish(fr.val(a))
	}
	if mc, ok := x.Call.Value.(*ssa.MakeClosure); ok {
		for _, b := range mc.Bindings {
			f.publish(fr.val(b))
		}
	}
	var callee *ssa.Function
	switch v := x.Call.Value.(type) {
	case *ssa.Function:
		callee = v
	case *ssa.MakeClosure:
		callee, _ = v.Fn.(*ssa.Function)
	}
	if callee == nil {
		return
	}
	// sweep kind "goshare": a goroutine started here must not write a variable it shares with its
	// creator (or with the other goroutines a loop starts): no synchronisation orders those writes
	if f.sweep["goshare"] && !f.dry {
		if mc, ok := x.Call.Value.(*ssa.MakeClosure); ok {
			for i, b := range mc.Bindings {
				if _, isCell := b.(*ssa.Alloc); !isCell || i >= len(callee.FreeVars) || callee.FreeVars[i].Referrers() == nil {
					continue
				}
				for _, u := range *callee.FreeVars[i].Referrers() {
					if stw, isStore := u.(*ssa.Store); isStore && stw.Addr == ssa.Value(callee.FreeVars[i]) {
						f.oblige(st, fmt.Sprintf("%s#goroutine-writes-no-shared-variable:%s", fnShortName(fr.fn), callee.FreeVars[i].Name()), "safety", f.sweepTags, "false",
							"the goroutine started here assigns to the captured variable "+callee.FreeVars[i].Name()+" without synchronisation", posStr(f.e.fset, x.Pos()))
						break
					}
				}
			}
		}
	}
	spec := f.e.specFor(callee)
	if spec != nil && !f.dry {
		// a spawned call counts as a call for the ghost counters of its contract
		for _, gname := range spec.Counted {
			if g, ok := f.e.specs.ghosts[gname]; ok && len(g.Params) == 0 {
				key := f.ghostKey(g.Name, sortInt, false, "")
				st.heap = f.hs.write(st.heap, key, f.c.define("cnt."+gname, sortInt, app("+", f.hs.read(st.heap, key), "1")))
			}
		}
	}
	if spec == nil || len(spec.Requires) == 0 {
		return
	}
	vars := map[string]Val{}
	for i, p := range callee.Params {
		if i < len(x.Call.Args) {
			vars[p.Name()] = fr.val(x.Call.Args[i])
		}
	}
	if mc, ok := x.Call.Value.(*ssa.MakeClosure); ok {
		for i, fv := range callee.FreeVars {
			if i < len(mc.Bindings) {
				b := fr.val(mc.Bindings[i])
				if pt, ok := fv.Type().Underlying().(*types.Pointer); ok {
					vars[fv.Name()] = f.load(st.heap, b, pt.Elem())
				} else {
					vars[fv.Name()] = b
				}
			}
		}
	}
	env := f.newEnv(spec.Pkg, st.heap, st.heap, vars, nil)
	for _, r := range spec.Requires {
		if !f.e.active(r.Tags) {
			continue
		}
		v, err := env.evalBool(r.E)
		if err != nil {
			f.fail("%s: requires of spawned %s: %v", r.Line, shortCallee(callee.String()), err)
			continue
		}
		f.oblige(st, fmt.Sprintf("%s#go:%s:requires:%s", fnShortName(fr.fn), shortCallee(callee.String()), clauseLabel(r)), "call-requires", r.Tags, v, r.Src, r.Line)
	}
}

// Sweep kind "cancel": every wait on a channel can be ended from outside. A blocking
// select must have a case on the Done() channel of the function's context parameter
// (when it has one), or else on some context's Done() or a timer; a bare blocking
// receive or send has no such case. These obligations are structural: their goal is
// the constant true or false, decided from the select's cases.
func isDoneCall(v ssa.Value) (ssa.Value, bool) {
	c, ok := v.(*ssa.Call)
	if !ok || !c.Call.IsInvoke() || c.Call.Method.Name() != "Done" {
		return nil, false
	}
	return c.Call.Value, true
}

func isTimerChan(v ssa.Value) bool {
	c, ok := v.(*ssa.Call)
	if !ok {
		return false
	}
	if cf := c.Call.StaticCallee(); cf != nil && cf.Pkg != nil && cf.Pkg.Pkg.Path() == "time" && (cf.Name() == "After" || cf.Name() == "Tick") {
		return true
	}
	return false
}

func (fr *frame) ctxParam() *ssa.Parameter {
	root := fr.fn
	for _, p := range root.Params {
		if n, ok := p.Type().(*types.Named); ok && n.Obj().Pkg() != nil && n.Obj().Pkg().Path() == "context" && n.Obj().Name() == "Context" {
			return p
		}
	}
	return nil
}

func (fr *frame) noteSelect(x *ssa.Select, st *bstate) {
	f := fr.f
	if !f.sweep["cancel"] || !x.Blocking {
		return
	}
	cp := fr.ctxParam()
	onParam, onAny := false, false
	for _, s := range x.States {
		if s.Dir != types.RecvOnly {
			continue
		}
		if cv, ok := isDoneCall(s.Chan); ok {
			onAny = true
			if cp != nil && cv == ssa.Value(cp) {
				onParam = true
			}
		} else if isTimerChan(s.Chan) {
			onAny = true
		}
	}
	goal, why := "true", "a blocking select has a case that ends the wait when the caller's context ends (or, without a context parameter, a context or timer case)"
	if cp != nil && !onParam || cp == nil && !onAny {
		goal = "false"
	}
	f.oblige(st, fmt.Sprintf("%s#wait-can-be-cancelled:select", fnShortName(fr.fn)), "safety", f.sweepTags, goal, why, posStr(f.e.fset, x.Pos()))
}

func (fr *frame) noteRecv(x *ssa.UnOp, st *bstate) {
	f := fr.f
	if !f.sweep["cancel"] {
		return
	}
	if _, ok := isDoneCall(x.X); ok || isTimerChan(x.X) {
		return // waiting for a context or a timer is itself bounded from outside
	}
	f.oblige(st, fmt.Sprintf("%s#wait-can-be-cancelled:receive:%s", fnShortName(fr.fn), valueLabel(x.X)), "safety", f.sweepTags, "false",
		"a bare channel receive blocks with no way to end the wait", posStr(f.e.fset, x.Pos()))
}

func (fr *frame) noteSend(x *ssa.Send, st *bstate) {
	f := fr.f
	if !f.sweep["cancel"] {
		return
	}
	f.oblige(st, fmt.Sprintf("%s#wait-can-be-cancelled:send:%s", fnShortName(fr.fn), valueLabel(x.Chan)), "safety", f.sweepTags, "false",
		"a bare channel send blocks with no way to end the wait", posStr(f.e.fset, x.Pos()))
}

// ---------------------------------------------------------------------------
// type invariants at function boundaries

func (fr *frame) typeInvTargets() map[string]Val {
	out := map[string]Val{}
	for _, p := range fr.fn.Params {
		if ts := fr.f.e.typeSpecOf(p.Type()); ts != nil && len(ts.Invs) > 0 {
			if _, isPtr := p.Type().Underlying().(*types.Pointer); isPtr {
				out[p.Name()] = fr.vals[p]
			}
		}
	}
	return out
}

func (fr *frame) isCtorOf(ts *TypeSpec) bool {
	for _, c := range ts.Ctors {
		if c == fr.fn.Name() {
			return true
		}
	}
	return false
}

func (fr *frame) assumeTypeInvariants(st *bstate) {
	f := fr.f
	if fr.spec != nil && fr.spec.Helper {
		return
	}
	for _, p := range fr.fn.Params {
		ts := f.e.typeSpecOf(p.Type())
		if ts == nil || len(ts.Invs) == 0 {
			continue
		}
		if _, isPtr := p.Type().Underlying().(*types.Pointer); !isPtr {
			continue
		}
		for _, inv := range ts.Invs {
			if !f.e.active(inv.Tags) {
				continue
			}
			env := f.newEnv(ts.Pkg, st.heap, st.heap, map[string]Val{"self": fr.vals[p]}, nil)
			v, err := env.evalBool(inv.E)
			if err != nil {
				f.fail("%s: invariant: %v", inv.Line, err)
				continue
			}
			f.assume(st, v, "type invariant of "+ts.Name+": "+inv.Src)
		}
	}
}

func (fr *frame) checkTypeInvariants(st *bstate) {
	f := fr.f
	if fr.spec != nil && fr.spec.Helper {
		return
	}
	for _, p := range fr.fn.Params {
		ts := f.e.typeSpecOf(p.Type())
		if ts == nil || len(ts.Invs) == 0 {
			continue
		}
		if _, isPtr := p.Type().Underlying().(*types.Pointer); !isPtr {
			continue
		}
		for _, inv := range ts.Invs {
			if !f.e.active(inv.Tags) || fr.isCtorOf(ts) && false {
				continue
			}
			if !fr.invTouched(ts, inv, fr.vals[p], f.entryHeap, st.heap) {
				continue // the function itself writes nothing the invariant reads
			}
			env := f.newEnv(ts.Pkg, st.heap, fr.oldHeap, map[string]Val{"self": fr.vals[p]}, nil)
			// callees are assumed to preserve the invariants of the objects they are handed
			// (each function that writes the fields is itself checked): unknown calls are
			// transparent for this one evaluation
			f.hs.ignoreCallHavoc = true
			v, err := env.evalBool(inv.E)
			f.hs.ignoreCallHavoc = false
			if err != nil {
				f.fail("%s: invariant: %v", inv.Line, err)
				continue
			}
			f.oblige(st, fmt.Sprintf("%s#type-invariant:%s:%s", fnShortName(fr.fn), ts.Name, clauseLabel(inv)), "type-invariant", inv.Tags, v, inv.Src, inv.Line)
		}
	}
}

// calleeIsWriter: is the callee one of the declared writer methods of some
// type's private fields?  Calls to anything else keep private fields.
func (fr *frame) calleeIsWriter(name string) bool {
	for _, ts := range fr.f.e.specs.types {
		for _, pd := range ts.Private {
			for _, w := range pd.Writers {
				if strings.HasSuffix(name, "."+ts.Name+")."+w) || strings.HasSuffix(name, "/"+ts.Name+")."+w) || strings.HasSuffix(name, "*"+ts.Name+")."+w) {
					return true
				}
				if strings.Contains(name, ts.Name+")."+w) {
					return true
				}
			}
		}
	}
	return false
}

// checkFieldStore: stores to final / private fields outside their constructors / writers.
func (fr *frame) checkFieldStore(addr ssa.Value, st *bstate, pos token.Pos) {
	fr.checkFieldWrite(addr, st, pos, false)
}

// checkFieldContents: mutation of the map stored in the field (only `private` declarations restrict that).
func (fr *frame) checkFieldContents(addr ssa.Value, st *bstate, pos token.Pos) {
	fr.checkFieldWrite(addr, st, pos, true)
}

func (fr *frame) checkFieldWrite(addr ssa.Value, st *bstate, pos token.Pos, contentsOnly bool) {
	f := fr.f
	if f.dry {
		return
	}
	fa, ok := addr.(*ssa.FieldAddr)
	if !ok {
		return
	}
	T := fa.X.Type().Underlying().(*types.Pointer).Elem()
	ts := f.e.typeSpecOf(T)
	if ts == nil {
		return
	}
	fname := T.Underlying().(*types.Struct).Field(fa.Field).Name()
	base := fr.val(fa.X)
	if strings.HasPrefix(base.Tm, "(- ") || strings.HasPrefix(base.Tm, "alloc!") {
		return // object under construction in this call
	}
	root := fr.fn
	for root.Parent() != nil {
		root = root.Parent()
	}
	isMethodOf := func(names []string) bool {
		for _, n := range names {
			if root.Name() == n || strings.HasSuffix(n, "*") && strings.HasPrefix(root.Name(), strings.TrimSuffix(n, "*")) {
				return true
			}
		}
		return false
	}
	for _, fd := range ts.FinalDecls {
		if contentsOnly {
			break
		}
		for _, fn := range fd.Fields {
			if fn == fname && !isMethodOf(ts.Ctors) && !isMethodOf(ts.Inits) && f.e.active(fd.Tags) && (len(fd.Tags) > 0 || f.e.curProp == "") {
				f.oblige(st, fmt.Sprintf("%s#frame:final:%s.%s", fnShortName(fr.fn), ts.Name, fname), "frame", fd.Tags, "false",
					fmt.Sprintf("%s.%s is declared final: written only by %v", ts.Name, fname, append(append([]string{}, ts.Ctors...), ts.Inits...)), posStr(f.e.fset, pos))
			}
		}
	}
	for _, fz := range ts.Frozen {
		if contentsOnly || !f.e.active(fz.Tags) || len(fz.Tags) == 0 && f.e.curProp != "" || isMethodOf(ts.Ctors) || isMethodOf(ts.Inits) {
			continue
		}
		exempt := false
		for _, ex := range fz.Except {
			if ex == fname {
				exempt = true
			}
		}
		if !exempt {
			f.oblige(st, fmt.Sprintf("%s#frame:frozen:%s.%s", fnShortName(fr.fn), ts.Name, fname), "frame", fz.Tags, "false",
				fmt.Sprintf("%s is frozen after construction (every field but %v): %s is written here", ts.Name, fz.Except, fname), posStr(f.e.fset, pos))
		}
	}
	for _, pd := range ts.Private {
		for _, fn := range pd.Fields {
			if fn == fname && !isMethodOf(pd.Writers) && f.e.active(pd.Tags) {
				f.oblige(st, fmt.Sprintf("%s#frame:private:%s.%s", fnShortName(fr.fn), ts.Name, fname), "frame", pd.Tags, "false",
					fmt.Sprintf("%s.%s may only be written by %v", ts.Name, fname, pd.Writers), posStr(f.e.fset, pos))
			}
		}
	}
}

// checkCtorInvariants: a constructor establishes the type invariants on its result.
func (fr *frame) checkCtorInvariants(ret *retState) {
	f := fr.f
	rs := fr.fn.Signature.Results()
	for i := 0; i < rs.Len() && i < len(ret.vals); i++ {
		ts := f.e.typeSpecOf(rs.At(i).Type())
		if ts == nil || len(ts.Invs) == 0 || !fr.isCtorOf(ts) {
			continue
		}
		if _, isPtr := rs.At(i).Type().Underlying().(*types.Pointer); !isPtr {
			continue
		}
		for _, inv := range ts.Invs {
			if !f.e.active(inv.Tags) {
				continue
			}
			env := f.newEnv(ts.Pkg, ret.st.heap, fr.oldHeap, map[string]Val{"self": ret.vals[i]}, nil)
			v, err := env.evalBool(inv.E)
			if err != nil {
				f.fail("%s: invariant: %v", inv.Line, err)
				continue
			}
			f.oblige(ret.st, fmt.Sprintf("%s#ctor-establishes:%s:%s", fnShortName(fr.fn), ts.Name, clauseLabel(inv)), "type-invariant", inv.Tags, implies(not(eq(ret.vals[i].Tm, "0")), v), inv.Src, inv.Line)
		}
	}
}

// checkFrame: a function declared pure / with a modifies list leaves every
// other heap location as it found it.
func (fr *frame) checkFrame(st *bstate) {
	f := fr.f
	if f.dry || fr.spec == nil || !fr.spec.HasMod || fr.spec.Trusted {
		return
	}
	if fr.spec.ModAll {
		if len(fr.spec.Modifies) == 0 {
			return
		}
		// "modifies *, g1, g2": of the stable ghosts only the listed ones may change
		allowed := map[string]bool{}
		env := fr.specEnv(f.entryHeap, f.entryHeap, nil)
		for _, m := range fr.spec.Modifies {
			probe, err := env.havocLocation(f.entryHeap, m)
			if err != nil {
				continue
			}
			for h := probe; h != nil && h != f.entryHeap; h = h.parent {
				switch h.kind {
				case "write":
					allowed[h.key] = true
				case "havocSome":
					for k := range h.keys {
						allowed[k] = true
					}
				}
			}
		}
		allowed["G.lockops"] = true
		allowed["G.lockheld"] = true
		for _, key := range sortedKeys(f.hs.stable) {
			if allowed[key] || f.hs.sorts[key] == "" {
				continue
			}
			if !f.e.ghostRelevant(strings.TrimPrefix(key, "G.")) {
				continue // no clause of the property being checked mentions this ghost: its value cannot matter
			}
			before, after := f.hs.read(f.entryHeap, key), f.hs.read(st.heap, key)
			if before != after {
				f.oblige(st, fmt.Sprintf("%s#frame:unchanged:%s", fnShortName(fr.fn), key), "frame", nil, eq(after, before), "ghost state outside the declared frame is unchanged", fr.spec.Line)
			}
		}
		return
	}
	lf := &loopFrame{keys: map[string]map[string]bool{}}
	f.frameMode = true
	collectWrites(f, st.heap, f.entryHeap, lf, map[*Heap]bool{})
	f.frameMode = false
	name := fnShortName(fr.fn)
	if lf.all {
		f.oblige(st, name+"#frame:unknown-call-may-write-anything", "frame", nil, "false", "the function is declared pure / with a modifies list but calls a function without a frame", fr.spec.Line)
		return
	}
	// allowed locations
	allowedWhole := map[string]bool{}
	allowedAt := map[string][]string{}
	env := fr.specEnv(f.entryHeap, f.entryHeap, nil)
	for _, m := range fr.spec.Modifies {
		before := f.hs.n
		probe, err := env.havocLocation(f.entryHeap, m)
		_ = before
		if err != nil {
			f.fail("%s: modifies: %v", fr.spec.Line, err)
			continue
		}
		for h := probe; h != nil && h != f.entryHeap; h = h.parent {
			switch h.kind {
			case "write":
				if h.obj == "" {
					allowedWhole[h.key] = true
				} else {
					allowedAt[h.key] = append(allowedAt[h.key], h.obj)
				}
			case "havocSome":
				for k := range h.keys {
					allowedWhole[k] = true
				}
			case "havoc":
				return
			}
		}
	}
	for _, key := range sortedKeys(lf.keys) {
		if allowedWhole[key] || f.hs.final[key] || strings.HasPrefix(key, "G.defer.") || strings.HasPrefix(key, "L") {
			continue
		}
		srt := f.hs.sorts[key]
		before, after := f.hs.read(f.entryHeap, key), f.hs.read(st.heap, key)
		if before == after {
			continue
		}
		goal := eq(after, before)
		objs := append([]string{}, allowedAt[key]...)
		// objects allocated by this very call, and locations changed only by modelled interference, are outside the caller's view
		for o := range lf.keys[key] {
			if strings.HasPrefix(o, "(- ") || strings.HasPrefix(o, "alloc!") || strings.HasPrefix(o, "interf:") {
				objs = append(objs, strings.TrimPrefix(o, "interf:"))
			}
		}
		if strings.HasPrefix(srt, "(Array Int") {
			patched := before
			for _, o := range objs {
				if strings.HasPrefix(o, "(- ") || strings.HasPrefix(o, "alloc!") {
					continue // fresh objects are outside the caller's view anyway
				}
				patched = app("store", patched, o, app("select", after, o))
			}
			goal = fmt.Sprintf("(forall ((o Int)) (=> (>= o 0) (= (select %s o) (select %s o))))", after, patched)
		}
		f.oblige(st, fmt.Sprintf("%s#frame:unchanged:%s", name, key), "frame", nil, goal, "location outside the declared frame is unchanged", fr.spec.Line)
	}
}

// atomicCall models the methods of sync/atomic types as plain loads and stores.
func (fr *frame) atomicCall(cc *ssa.CallCommon, args []Val, st *bstate) (Val, bool) {
	f := fr.f
	fn := cc.StaticCallee()
	// package-level functions of sync/atomic on plain integer cells (AddUint64(&x, d), LoadInt32(&x), ...)
	if fn != nil && fn.Signature.Recv() == nil && fn.Pkg != nil && fn.Pkg.Pkg.Path() == "sync/atomic" && len(args) > 0 {
		pt, ok := cc.Args[0].Type().Underlying().(*types.Pointer)
		if ok && kindOf(pt.Elem()) == KInt {
			T := pt.Elem()
			cur := f.load(st.heap, args[0], T)
			name := fn.Name()
			switch {
			case strings.HasPrefix(name, "Add") && len(args) == 2:
				nv := Val{K: KInt, T: T, Tm: f.c.define("atomic.add", sortInt, app("+", cur.Tm, args[1].Tm))}
				st.heap = f.store(st.heap, args[0], T, nv)
				f.exact["atomic."+name]++
				return nv, true
			case strings.HasPrefix(name, "Load") && len(args) == 1:
				f.exact["atomic."+name]++
				return f.nameVal("atomic.load", cur), true
			case strings.HasPrefix(name, "Store") && len(args) == 2:
				st.heap = f.store(st.heap, args[0], T, args[1])
				f.exact["atomic."+name]++
				return Val{K: KUnit}, true
			case strings.HasPrefix(name, "Swap") && len(args) == 2:
				old := f.nameVal("atomic.old", cur)
				st.heap = f.store(st.heap, args[0], T, args[1])
				f.exact["atomic."+name]++
				return old, true
			case strings.HasPrefix(name, "CompareAndSwap") && len(args) == 3:
				okT := f.c.define("atomic.cas", sortBool, eq(cur.Tm, args[1].Tm))
				st.heap = f.store(st.heap, args[0], T, Val{K: KInt, T: T, Tm: ite(okT, args[2].Tm, cur.Tm)})
				f.exact["atomic."+name]++
				return boolVal(okT), true
			}
		}
	}
	if fn == nil || fn.Signature.Recv() == nil || len(args) == 0 {
		return Val{}, false
	}
	pt, ok := fn.Signature.Recv().Type().(*types.Pointer)
	if !ok {
		return Val{}, false
	}
	k, ok := atomicKind(pt.Elem())
	if !ok {
		return Val{}, false
	}
	T := pt.Elem()
	recv := args[0]
	cur := func() Val {
		v := f.load(st.heap, recv, T)
		v.K = k
		return v
	}
	set := func(v Val) {
		v.K = k
		st.heap = f.store(st.heap, recv, T, v)
	}
	f.exact["atomic."+fn.Name()]++
	var rt types.Type
	if fn.Signature.Results().Len() == 1 {
		rt = fn.Signature.Results().At(0).Type()
	}
	switch fn.Name() {
	case "Load":
		v := cur()
		v.T = rt
		return f.nameVal("atomic.load", v), true
	case "Store":
		set(args[1])
		return Val{K: KUnit}, true
	case "Swap":
		old := f.nameVal("atomic.old", cur())
		set(args[1])
		old.T = rt
		return old, true
	case "Add":
		if k == KInt {
			nv := Val{K: KInt, T: rt, Tm: f.c.define("atomic.add", sortInt, app("+", cur().Tm, args[1].Tm))}
			set(nv)
			return nv, true
		}
	case "CompareAndSwap":
		if len(args) == 3 {
			c := cur()
			okT := f.c.define("atomic.cas", sortBool, f.eqVal(c, Val{K: k, T: c.T, Tm: args[1].Tm}))
			nv := f.iteVal(okT, Val{K: k, T: c.T, Tm: args[2].Tm}, c)
			set(nv)
			return boolVal(okT), true
		}
	}
	f.exact["atomic."+fn.Name()]--
	return Val{}, false
}

// checkLockBalance: a function returns holding exactly the locks it was entered with
// (this is what lets callers keep their lock state across calls).
func (fr *frame) checkLockBalance(st *bstate) {
	f := fr.f
	if f.dry {
		return
	}
	lk := f.ghostKey("lockheld", sortInt, true, sortInt)
	before, after := f.hs.read(f.entryHeap, lk), f.hs.read(st.heap, lk)
	if before == after {
		return
	}
	f.oblige(st, fnShortName(fr.fn)+"#lock-balance", "lock-balance", []string{"C06", "C09", "C12", "C20"}, eq(after, before),
		"every lock acquired by the function is released on every return path", posStr(f.e.fset, fr.fn.Pos()))
}

// keepOwnedChannels: channels stored in fields a type declares as owned keep
// their open/closed state across calls to code that is not one of the type's
// private writers (for the objects this function received as parameters).
func (fr *frame) keepOwnedChannels(pre *Heap, st *bstate) {
	f := fr.f
	for _, p := range fr.fn.Params {
		ts := f.e.typeSpecOf(p.Type())
		if ts == nil || len(ts.Owns) == 0 {
			continue
		}
		pt, ok := p.Type().Underlying().(*types.Pointer)
		if !ok {
			continue
		}
		base := fr.vals[p]
		for _, fname := range ts.Owns {
			i, ok := fieldIndex(pt.Elem(), fname)
			if !ok {
				continue
			}
			key := f.fieldKey(base.Tm, pt.Elem(), i)
			ch := app("select", f.hs.read(pre, key), base.Tm)
			gname := chanClosedGhost(pt.Elem().Underlying().(*types.Struct).Field(i).Type())
			f.assume(st, eq(f.ghostAt(st.heap, gname, sortBool, ch), f.ghostAt(pre, gname, sortBool, ch)), "owned channel "+ts.Name+"."+fname+" is closed only by the type's writers")
		}
	}
}

// boundaryInvariants: at a call boundary the type invariants of the callee's
// parameters hold: the caller's own writes must not have broken them
// (obligation, unknown calls transparent), and the callee may rely on them.
func (nf *frame) boundaryInvariants(st *bstate, caller *frame) {
	f := nf.f
	if nf.spec != nil && nf.spec.Helper {
		return
	}
	for _, p := range nf.fn.Params {
		ts := f.e.typeSpecOf(p.Type())
		if ts == nil || len(ts.Invs) == 0 {
			continue
		}
		if _, isPtr := p.Type().Underlying().(*types.Pointer); !isPtr {
			continue
		}
		for _, inv := range ts.Invs {
			if !f.e.active(inv.Tags) {
				continue
			}
			env := f.newEnv(ts.Pkg, st.heap, st.heap, map[string]Val{"self": nf.vals[p]}, nil)
			f.hs.ignoreCallHavoc = true
			v0, err := env.evalBool(inv.E)
			f.hs.ignoreCallHavoc = false
			if err != nil {
				f.fail("%s: invariant: %v", inv.Line, err)
				continue
			}
			// relative to the caller's entry: what held when the caller was entered still holds
			// as far as the caller's own writes are concerned
			envE := f.newEnv(ts.Pkg, f.entryHeap, f.entryHeap, map[string]Val{"self": nf.vals[p]}, nil)
			if ve, err := envE.evalBool(inv.E); err == nil {
				v0 = implies(ve, v0)
			}
			if (caller.spec == nil || !caller.spec.Helper) && caller.invTouched(ts, inv, nf.vals[p], f.entryHeap, st.heap) {
				f.oblige(st, fmt.Sprintf("%s#call:%s:type-invariant:%s:%s", fnShortName(caller.fn), shortCallee(nf.fn.String()), ts.Name, clauseLabel(inv)), "type-invariant", inv.Tags, v0, inv.Src, inv.Line)
			}
			v, err := env.evalBool(inv.E)
			if err == nil {
				f.assume(st, v, "type invariant of "+ts.Name+" at the call boundary: "+inv.Src)
			}
			f.hs.ignoreCallHavoc = true
			if v2, err := env.evalBool(inv.E); err == nil && v2 != v {
				f.assume(st, v2, "type invariant of "+ts.Name+" at the call boundary (own writes only): "+inv.Src)
			}
			f.hs.ignoreCallHavoc = false
		}
	}
}

// keepFreeVarCells: the cells of variables captured by this closure cannot be
// reached by code outside the module or by callbacks unless their address is
// passed: they keep their contents across such calls.
func (fr *frame) keepFreeVarCells(pre *Heap, st *bstate, args []Val) {
	f := fr.f
	top := fr
	for _, fv := range top.fn.FreeVars {
		pt, ok := fv.Type().Underlying().(*types.Pointer)
		if !ok || !isScalarKind(kindOf(pt.Elem())) {
			continue
		}
		cell, ok := top.vals[fv]
		if !ok || cell.K != KRef {
			continue
		}
		passed := false
		for _, a := range args {
			if a.Tm == cell.Tm {
				passed = true
			}
		}
		if passed {
			continue
		}
		key := f.cellKey(cell.Tm, pt.Elem())
		f.assume(st, eq(app("select", f.hs.read(st.heap, key), cell.Tm), app("select", f.hs.read(pre, key), cell.Tm)), "captured variable "+fv.Name()+" is not reachable by the callee")
	}
}

// keepMonotone: monotone scalar ghosts only grow across calls to unknown code.
func (fr *frame) keepMonotone(pre *Heap, st *bstate) {
	f := fr.f
	for _, name := range sortedKeys(f.e.specs.ghosts) {
		g := f.e.specs.ghosts[name]
		if !g.Monotone || len(g.Params) != 0 {
			continue
		}
		t, err := f.e.resolveType(g.Pkg, g.T)
		if err != nil {
			continue
		}
		key := f.ghostKey(g.Name, sortOfType(t), false, "")
		a, b := f.hs.read(pre, key), f.hs.read(st.heap, key)
		if kindOf(t) == KBool {
			f.assume(st, implies(a, b), "monotone ghost "+name)
		} else {
			f.assume(st, app(">=", b, a), "monotone ghost "+name)
		}
	}
}

// invTouched: does the function itself (not its unknown callees) write a heap
// key the invariant reads, on the way from `from` to `to`?
func (fr *frame) invTouched(ts *TypeSpec, inv *Clause, self Val, from, to *Heap) bool {
	f := fr.f
	f.hs.readLog = map[string]bool{}
	env := f.newEnv(ts.Pkg, to, to, map[string]Val{"self": self}, nil)
	_, err := env.evalBool(inv.E)
	fp := f.hs.readLog
	f.hs.readLog = nil
	if err != nil {
		return true
	}
	lf := &loopFrame{keys: map[string]map[string]bool{}}
	f.frameMode = true
	collectWrites(f, to, from, lf, map[*Heap]bool{})
	f.frameMode = false
	for k, objs := range lf.keys {
		if !fp[k] {
			continue
		}
		onlyInterf := true
		for o := range objs {
			if !strings.HasPrefix(o, "interf:") {
				onlyInterf = false
			}
		}
		if !onlyInterf {
			return true
		}
	}
	return false
}

// havocWritersPassed: an unknown callee that is handed an http.ResponseWriter may
// write a status and headers through it.
func (fr *frame) havocWritersPassed(args []Val, st *bstate) {
	f := fr.f
	g, ok := f.e.specs.ghosts["status"]
	if !ok || len(g.Params) != 1 {
		return
	}
	for _, a := range args {
		if a.K != KAny || a.T == nil {
			continue
		}
		it, ok := a.T.Underlying().(*types.Interface)
		if !ok {
			continue
		}
		isRW := false
		for i := 0; i < it.NumMethods(); i++ {
			if it.Method(i).Name() == "WriteHeader" {
				isRW = true
			}
		}
		if !isRW {
			continue
		}
		key := f.ghostKey("status", sortInt, true, sortAny)
		arr := f.hs.read(st.heap, key)
		nh := f.hs.write(st.heap, key, f.c.define("Hu."+key, f.hs.sorts[key], app("store", arr, a.Tm, f.c.freshConst("status.unknown", sortInt))))
		nh.obj = a.Tm
		st.heap = nh
		if g2, ok := f.e.specs.ghosts["hval"]; ok && len(g2.Params) == 2 {
			if k2, _, err := f.ghost2Key(g2); err == nil {
				st.heap = f.hs.havocKeys(st.heap, map[string]bool{k2: true})
			}
		}
	}
}

// guardedDispatch: a call of a function value that may be one of the closures
// built in this very call (a dispatch table): one guarded instance per
// candidate closure of the right signature, plus the unknown-callee instance
// for "none of them".
func (fr *frame) guardedDispatch(cc *ssa.CallCommon, fv Val, args []Val, st *bstate, rt types.Type, site ssa.Instruction) (Val, bool) {
	f := fr.f
	if fv.K != KRef || f.inlineDepth >= 3 {
		return Val{}, false
	}
	sig := cc.Signature()
	type cand struct {
		ref string
		ci  *closureInfo
	}
	var cands []cand
	for _, ref := range sortedKeys(f.closures) {
		ci := f.closures[ref]
		if ci.fn.Signature.Recv() == nil && types.Identical(ci.fn.Signature, sig) || types.Identical(types.NewSignatureType(nil, nil, nil, ci.fn.Signature.Params(), ci.fn.Signature.Results(), ci.fn.Signature.Variadic()), types.NewSignatureType(nil, nil, nil, sig.Params(), sig.Results(), sig.Variadic())) {
			cands = append(cands, cand{ref, ci})
		}
	}
	if len(cands) == 0 || len(cands) > 16 {
		return Val{}, false
	}
	var reaches []string
	var heaps []*Heap
	var segs []*seg
	var results []Val
	none := st.reach
	for _, c := range cands {
		cond := eq(fv.Tm, c.ref)
		sub := &bstate{reach: and(st.reach, cond), heap: st.heap, seg: f.newSeg(st.seg)}
		none = and(none, not(cond))
		saved := fr.cur
		fr.cur = sub
		var res Val
		if spec := f.e.specFor(c.ci.fn); spec != nil && !spec.Inline {
			var pn []string
			for _, p := range c.ci.fn.Params {
				pn = append(pn, p.Name())
			}
			res = fr.applySpec(spec, c.ci.fn.String(), pn, args, rt, sub, site)
		} else {
			res = fr.inline(c.ci.fn, args, c.ci.bind, sub, rt)
		}
		fr.cur = saved
		if sub.reach == "false" {
			continue
		}
		reaches = append(reaches, sub.reach)
		heaps = append(heaps, sub.heap)
		segs = append(segs, sub.seg)
		results = append(results, res)
	}
	// none of the known closures: unknown callee
	subN := &bstate{reach: none, heap: f.hs.havocAll(st.heap), seg: f.newSeg(st.seg)}
	subN.heap.byCall = true
	f.abstr["call-unknown:dyn:"+valueLabel(cc.Value)]++
	var resN Val
	if rt != nil {
		resN = f.freshVal("res.dyn", rt)
		f.assumeTypeRange(subN, resN)
	} else {
		resN = Val{K: KUnit}
	}
	reaches = append(reaches, subN.reach)
	heaps = append(heaps, subN.heap)
	segs = append(segs, subN.seg)
	results = append(results, resN)
	st.reach = f.c.define("reach.dispatch", sortBool, or(reaches...))
	st.heap = f.hs.merge(heaps, reaches)
	st.seg = f.newSeg(segs...)
	out := results[len(results)-1]
	for i := len(results) - 2; i >= 0; i-- {
		a, b := results[i], out
		if a.K != b.K {
			continue
		}
		out = f.iteVal(reaches[i], a, b)
	}
	if out.K != KUnit {
		out = f.nameVal("res.dispatch", out)
	}
	f.exact["call-dispatch"]++
	return out, true
}

// siteOrdinal: the 1-based position, in source order, of call site `site` among
// the call sites of this function that can be addressed by `callee`.
func (fr *frame) siteOrdinal(callee string, site ssa.Instruction) int {
	if fr.siteOrd == nil {
		fr.siteOrd = map[string][]ssa.Instruction{}
	}
	list, ok := fr.siteOrd[callee]
	if !ok {
		for _, b := range fr.fn.Blocks {
			for _, in := range b.Instrs {
				ci, isCall := in.(ssa.CallInstruction)
				if !isCall {
					continue
				}
				names := calleeNames(ci.Common())
				cc := ci.Common()
				if !cc.IsInvoke() && cc.StaticCallee() == nil {
					for _, b2 := range fr.fn.Blocks {
						for _, in2 := range b2.Instrs {
							if d, ok := in2.(*ssa.DebugRef); ok && d.X == cc.Value {
								if n := debugRefName(d); n != "" {
									names = append(names, n)
								}
							}
						}
					}
				}
				for _, n := range names {
					if n == callee {
						list = append(list, in)
						break
					}
				}
			}
		}
		sort.SliceStable(list, func(i, j int) bool { return list[i].Pos() < list[j].Pos() })
		fr.siteOrd[callee] = list
	}
	for i, in := range list {
		if in == site {
			return i + 1
		}
	}
	return 0
}

// ---------------------------------------------------------------------------
// transient map entries (type clause "transient f"): an entry that a function
// stores in map field f is no longer in the map when that function returns.

type transientIns struct {
	reach, m, k, dk, label, pos string
	tags                        []string
	addr                        Val // address of the map field
	mt                          types.Type
}

func (fr *frame) noteTransient(x *ssa.MapUpdate, st *bstate, m, k, dk string) {
	f := fr.f
	if f.dry {
		return
	}
	u, ok := x.Map.(*ssa.UnOp)
	if !ok || u.Op != token.MUL {
		return
	}
	fa, ok := u.X.(*ssa.FieldAddr)
	if !ok {
		return
	}
	T := fa.X.Type().Underlying().(*types.Pointer).Elem()
	ts := f.e.typeSpecOf(T)
	if ts == nil {
		return
	}
	fname := T.Underlying().(*types.Struct).Field(fa.Field).Name()
	for _, td := range ts.Transient {
		if !f.e.active(td.Tags) || len(td.Tags) == 0 && f.e.curProp != "" {
			continue
		}
		skip := false
		for _, ex := range td.Except {
			if f.fn.Name() == ex {
				skip = true // the registering function itself; its callers are checked (it is inlined there)
			}
		}
		if f.fn.Parent() == nil && f.e.specFor(f.fn) == nil && inlinableStatic(f.fn) && !f.e.knownFunction(f.fn.String()) {
			skip = true // a helper that is new since the contracts were written: it is inlined at its callers, which are checked
		}
		if skip {
			continue
		}
		for _, n := range td.Fields {
			if n == fname {
				f.transients = append(f.transients, transientIns{reach: st.reach, m: m, k: k, dk: dk, label: fname, pos: posStr(f.e.fset, x.Pos()), tags: td.Tags, addr: fr.val(fa), mt: x.Map.Type()})
			}
		}
	}
}

func (fr *frame) checkTransients(st *bstate) {
	f := fr.f
	if f.dry || !fr.top {
		return
	}
	for _, t := range f.transients {
		dom := f.hs.read(st.heap, t.dk)
		cur := f.load(st.heap, t.addr, t.mt) // the map the field holds now (it may have been replaced meanwhile)
		f.oblige(st, fmt.Sprintf("%s#transient-entry-released:%s", fnShortName(fr.fn), t.label), "transient", t.tags,
			implies(t.reach, not(app("select", app("select", dom, cur.Tm), t.k))),
			"the entry stored in "+t.label+" is removed again on every return path", t.pos)
	}
}

// local channels: made by the function under analysis; "published" once the value
// has been stored somewhere or passed on.
type localChan struct {
	ref       string
	t         types.Type
	published bool
}

func (f *FnCtx) publish(v Val) {
	if v.K != KRef {
		return
	}
	for _, lc := range f.localChans {
		if lc.ref == v.Tm {
			lc.published = true
		}
	}
}

// before call send#N assert ...: the pseudo callee "send" names the N-th channel send of
// the function in source order (a send statement, or a select that has a send case);
// the assertion must hold whenever that send is about to happen.
func (fr *frame) sendOrdinal(site ssa.Instruction) int {
	var list []ssa.Instruction
	for _, b := range fr.fn.Blocks {
		for _, in := range b.Instrs {
			switch x := in.(type) {
			case *ssa.Send:
				list = append(list, in)
			case *ssa.Select:
				for _, s := range x.States {
					if s.Dir == types.SendOnly {
						list = append(list, in)
						break
					}
				}
			}
		}
	}
	sort.SliceStable(list, func(i, j int) bool { return list[i].Pos() < list[j].Pos() })
	for i, in := range list {
		if in == site {
			return i + 1
		}
	}
	return 0
}

func (fr *frame) beforeSendAsserts(site ssa.Instruction, st *bstate, taken string, chv, valv ssa.Value) {
	f := fr.f
	if fr.spec == nil || len(fr.spec.Before) == 0 || f.dry {
		return
	}
	for _, ba := range fr.spec.Before {
		if ba.Callee != "send" || !f.e.active(ba.C.Tags) || fr.sendOrdinal(site) != ba.Ordinal {
			continue
		}
		ba.C.used = true
		env := fr.specEnv(st.heap, fr.oldHeap, nil)
		env.addVars(fr.localEnvAtInstr(site, st.heap))
		// sendch / sendval: the channel sent on and the value sent
		sv := map[string]Val{}
		if chv != nil {
			if v, ok := fr.valOK(chv); ok {
				sv["sendch"] = v
			}
		}
		if valv != nil {
			if v, ok := fr.valOK(valv); ok {
				sv["sendval"] = v
			}
		}
		env.addVars(sv)
		v, err := env.evalBool(ba.C.E)
		if err != nil {
			f.fail("%s: before call send: %v", ba.C.Line, err)
			continue
		}
		f.oblige(st, fmt.Sprintf("%s#before:send#%d:%s", fnShortName(fr.fn), ba.Ordinal, clauseLabel(ba.C)), "assert", ba.C.Tags, implies(taken, v), ba.C.Src, ba.C.Line)
	}
}

// before call return#N assert ...: the pseudo callee "return" names the N-th return
// statement of the function in source order (0: every return); the assertion is an
// ensures clause that may also mention the function's local variables. ret/ret1/...
// denote the values being returned.
func (fr *frame) beforeReturnAsserts(x *ssa.Return, st *bstate, vals []Val) {
	f := fr.f
	if !fr.top || fr.spec == nil || len(fr.spec.Before) == 0 || f.dry {
		return
	}
	ord := 0
	{
		var list []ssa.Instruction
		for _, b := range fr.fn.Blocks {
			for _, in := range b.Instrs {
				if _, ok := in.(*ssa.Return); ok && in.Pos().IsValid() {
					list = append(list, in)
				}
			}
		}
		sort.SliceStable(list, func(i, j int) bool { return list[i].Pos() < list[j].Pos() })
		for i, in := range list {
			if in == ssa.Instruction(x) {
				ord = i + 1
			}
		}
	}
	for _, ba := range fr.spec.Before {
		if ba.Callee != "return" || !f.e.active(ba.C.Tags) || (ba.Ordinal != 0 && ba.Ordinal != ord) {
			continue
		}
		env := fr.specEnv(st.heap, fr.oldHeap, vals)
		env.addVars(fr.localEnvAtInstr(x, st.heap))
		v, err := env.evalBool(ba.C.E)
		if err != nil && ba.Ordinal == 0 && strings.Contains(err.Error(), "unknown identifier") {
			continue // return#0: the clause applies at the returns where its locals are in scope
		}
		ba.C.used = true
		if err != nil {
			f.fail("%s: before return: %v", ba.C.Line, err)
			continue
		}
		f.oblige(st, fmt.Sprintf("%s#before:return#%d:%s", fnShortName(fr.fn), ord, clauseLabel(ba.C)), "assert", ba.C.Tags, v, ba.C.Src, ba.C.Line)
	}
}

// ---------------------------------------------------------------------------
// before-call assertions whose call site was moved into a small helper.
// A clause "before call F#n" of function A is anchored to the n-th call of F among A's own
// instructions.  When A has fewer than n such calls left (the code around the call was
// extracted into a helper that is inlined during verification), the n-th call of F in
// source order *with inlinable helpers expanded in place* is used instead, and the
// assertion is evaluated when that inner call is reached, with A's locals as they are at
// the outer call and argK of the inner call.

func inlinableStatic(fn *ssa.Function) bool {
	if fn == nil || fn.Pkg == nil || !inModule(fn.Pkg.Pkg) || len(fn.Blocks) == 0 || fn.Parent() != nil {
		return false
	}
	n := 0
	for _, b := range fn.Blocks {
		for _, s := range b.Succs {
			if isBackEdge(b, s) {
				return false
			}
		}
		for _, in := range b.Instrs {
			if _, ok := in.(*ssa.DebugRef); !ok {
				n++
			}
			switch in.(type) {
			case *ssa.Go, *ssa.Defer:
				return false
			}
		}
	}
	return n <= 80
}

func (fr *frame) flatSites(callee string) [][]ssa.Instruction {
	var out [][]ssa.Instruction
	var walk func(fn *ssa.Function, prefix []ssa.Instruction, depth int)
	walk = func(fn *ssa.Function, prefix []ssa.Instruction, depth int) {
		var calls []ssa.Instruction
		for _, b := range fn.Blocks {
			for _, in := range b.Instrs {
				if _, ok := in.(ssa.CallInstruction); ok {
					calls = append(calls, in)
				}
			}
		}
		sort.SliceStable(calls, func(i, j int) bool { return calls[i].Pos() < calls[j].Pos() })
		for _, in := range calls {
			cc := in.(ssa.CallInstruction).Common()
			match := false
			for _, n := range calleeNames(cc) {
				if n == callee {
					match = true
				}
			}
			path := append(append([]ssa.Instruction{}, prefix...), in)
			if match {
				out = append(out, path)
				continue
			}
			if h := cc.StaticCallee(); h != nil && depth < 3 && fr.f.e.specFor(h) == nil && inlinableStatic(h) && !fr.f.e.knownFunction(h.String()) {
				walk(h, path, depth+1)
			}
		}
	}
	walk(fr.fn, nil, 0)
	return out
}

func (fr *frame) ownSiteCount(callee string) int {
	fr.siteOrdinal(callee, nil)
	return len(fr.siteOrd[callee])
}

func (fr *frame) outerBeforeAsserts(cc *ssa.CallCommon, st *bstate, site ssa.Instruction) {
	f := fr.f
	if fr.parent == nil || f.dry {
		return
	}
	path := []ssa.Instruction{site}
	child := fr
	for a := fr.parent; a != nil; a, child = a.parent, a {
		if child.spec != nil || child.fn.Parent() != nil || child.parentSite == nil || f.e.knownFunction(child.fn.String()) {
			return // only helpers that are new since the contracts were written, without a contract of their own, are looked through
		}
		path = append([]ssa.Instruction{child.parentSite}, path...)
		if a.spec == nil || len(a.spec.Before) == 0 {
			continue
		}
		names := calleeNames(cc)
		for _, ba := range a.spec.Before {
			match := false
			for _, n := range names {
				if n == ba.Callee {
					match = true
				}
			}
			if !match || !f.e.active(ba.C.Tags) || ba.Ordinal <= a.ownSiteCount(ba.Callee) {
				continue
			}
			flat := a.flatSites(ba.Callee)
			if ba.Ordinal-1 >= len(flat) || len(flat[ba.Ordinal-1]) != len(path) {
				continue
			}
			same := true
			for i := range path {
				if flat[ba.Ordinal-1][i] != path[i] {
					same = false
				}
			}
			if !same {
				continue
			}
			ba.C.used = true
			env := a.specEnv(st.heap, a.oldHeap, nil)
			env.addVars(a.localEnvAtInstr(path[0], st.heap))
			argv := map[string]Val{}
			k := 0
			if cc.IsInvoke() {
				argv["arg0"] = fr.val(cc.Value)
				k = 1
			}
			for i, x := range cc.Args {
				argv[fmt.Sprintf("arg%d", i+k)] = fr.val(x)
			}
			env.addVars(argv)
			v, err := env.evalBool(ba.C.E)
			if err != nil {
				f.fail("%s: before call %s (in helper %s): %v", ba.C.Line, ba.Callee, fr.fn.Name(), err)
				continue
			}
			f.oblige(st, fmt.Sprintf("%s#before:%s#%d:%s", fnShortName(a.fn), ba.Callee, ba.Ordinal, clauseLabel(ba.C)), "assert", ba.C.Tags, v, ba.C.Src, ba.C.Line)
		}
	}
}

// Guarded map references.  A load of the reference of a map kept in a guarded field is recorded
// (with the address of its lock); when that reference is later handed on - passed to a call, stored
// in a variable, captured by a closure, returned - the lock must still be held at that point,
// otherwise whoever uses it afterwards does so outside the critical section.
type guardedRef struct {
	lockAddr     string
	tname, fname string
	tags         []string
}

func (fr *frame) checkGuardedMapEscape(x *ssa.UnOp, st *bstate) {
	f := fr.f
	fa, ok := x.X.(*ssa.FieldAddr)
	if !ok {
		return
	}
	if _, isMap := x.Type().Underlying().(*types.Map); !isMap {
		return
	}
	T := fa.X.Type().Underlying().(*types.Pointer).Elem()
	ts := f.e.typeSpecOf(T)
	if ts == nil || len(ts.Guarded) == 0 {
		return
	}
	stt := T.Underlying().(*types.Struct)
	fname := stt.Field(fa.Field).Name()
	base := fr.val(fa.X)
	for _, g := range ts.Guarded {
		if !f.e.active(g.Tags) || len(g.Tags) == 0 && f.e.curProp != "" {
			continue
		}
		hit := false
		for _, gf := range g.Fields {
			if gf == fname {
				hit = true
			}
		}
		li := -1
		for i := 0; i < stt.NumFields(); i++ {
			if stt.Field(i).Name() == g.Lock {
				li = i
			}
		}
		if !hit || li < 0 {
			continue
		}
		root := fr.fn
		for root.Parent() != nil {
			root = root.Parent()
		}
		for _, n := range append(append([]string{}, ts.Ctors...), ts.Inits...) {
			if root.Name() == n || strings.HasSuffix(n, "*") && strings.HasPrefix(root.Name(), strings.TrimSuffix(n, "*")) {
				return
			}
		}
		lockAddr := f.faddr(base.Tm, T, li)
		if _, isPtr := stt.Field(li).Type().Underlying().(*types.Pointer); isPtr {
			lockAddr = app("select", f.hs.read(st.heap, f.fieldKey(base.Tm, T, li)), base.Tm)
		}
		if fr.guardedRefs == nil {
			fr.guardedRefs = map[ssa.Value]guardedRef{}
		}
		fr.guardedRefs[x] = guardedRef{lockAddr: lockAddr, tname: ts.Name, fname: fname, tags: g.Tags}
		return
	}
}

// guardedRefHandedOn: v is being passed on / stored / returned at state st.
func (fr *frame) guardedRefHandedOn(v ssa.Value, st *bstate, how string, pos token.Pos) {
	f := fr.f
	if f.dry || fr.guardedRefs == nil {
		return
	}
	gr, ok := fr.guardedRefs[v]
	if !ok {
		return
	}
	goal := app(">=", f.lockHeld(st.heap, gr.lockAddr), "1")
	if strings.HasPrefix(how, "stored") {
		goal = "false" // a variable outlives the critical section it is assigned in
	}
	f.oblige(st, fmt.Sprintf("%s#guarded-map-handed-on-only-under-its-lock:%s.%s", fnShortName(fr.fn), gr.tname, gr.fname), "guarded", gr.tags,
		goal,
		"the reference of the guarded map "+gr.tname+"."+gr.fname+" is "+how+" while its lock is not held: later uses happen outside the critical section", posStr(f.e.fset, pos))
}

// ---------------------------------------------------------------------------
// sweep kind "hashkey": a value used as a map key (or as a sync.Map key) through an interface must be
// hashable, otherwise the operation panics ("hash of unhashable type").  Values decoded by
// encoding/json can be []interface{} or map[string]interface{}.

func hasIfaceComponent(t types.Type) bool {
	switch u := t.Underlying().(type) {
	case *types.Interface:
		return true
	case *types.Array:
		return hasIfaceComponent(u.Elem())
	case *types.Struct:
		for i := 0; i < u.NumFields(); i++ {
			if hasIfaceComponent(u.Field(i).Type()) {
				return true
			}
		}
	}
	return false
}

func (fr *frame) checkHashableKey(key ssa.Value, st *bstate, what string, pos token.Pos) {
	f := fr.f
	if !f.sweep["hashkey"] || f.dry || fr.recovers() {
		return
	}
	goal := ""
	if p, isParam := key.(*ssa.Parameter); isParam && p.Parent() != nil && p.Parent().Parent() != nil {
		return // a key handed to an iteration callback (sync.Map.Range) comes out of the map itself
	}
	if mi, ok := key.(*ssa.MakeInterface); ok {
		if !hasIfaceComponent(mi.X.Type()) {
			return // boxed from a statically hashable type
		}
		if _, isIface := mi.X.Type().Underlying().(*types.Interface); !isIface {
			goal = "false" // an array/struct key with interface-typed parts: the parts' dynamic types are not checked anywhere
		}
		key = mi.X
	}
	if goal == "" {
		if _, isIface := key.Type().Underlying().(*types.Interface); !isIface {
			if !hasIfaceComponent(key.Type()) {
				return
			}
			goal = "false"
		} else {
			v := fr.val(key)
			if v.K != KAny {
				return
			}
			empty := types.NewInterfaceType(nil, nil)
			okS, _ := f.typeTest(v, types.NewSlice(empty))
			okM, _ := f.typeTest(v, types.NewMap(types.Typ[types.String], empty))
			goal = and(not(okS), not(okM))
		}
	}
	f.oblige(st, fmt.Sprintf("%s#hashable-key:%s", fnShortName(fr.fn), what), "safety", f.sweepTags, goal,
		"a value whose dynamic type may be a slice or a map is used as a map key", posStr(f.e.fset, pos))
}
