package main

// Per-property driver: selects functions and obligations by tag, discharges
// them, applies known findings, writes evidence and replay files.

import (
	"encoding/json"
	"flag"
	"fmt"
	"go/types"
	"os"
	"path/filepath"
	"regexp"
	"sort"
	"strings"
	"sync"
	"sync/atomic"
	"time"

	"golang.org/x/tools/go/ssa"
)

type KnownFinding struct {
	Property   string `json:"property"`
	Obligation string `json:"obligation"`
	Witness    string `json:"witness,omitempty"` // spec expression over the function's parameters; empty = true
	What       string `json:"what"`
	Status     string `json:"status"` // open | fixed
	Commit     string `json:"commit,omitempty"`
}

type KnownFile struct {
	Findings []KnownFinding `json:"findings"`
	Fixed    []string       `json:"fixed"`
}

type OblReport struct {
	Name     string            `json:"name"`
	Kind     string            `json:"kind"`
	Func     string            `json:"func"`
	Src      string            `json:"src"`
	Line     string            `json:"line"`
	Verdict  string            `json:"verdict"`
	Solver   string            `json:"solver"`
	Time     float64           `json:"time_s"`
	All      map[string]string `json:"solvers,omitempty"`
	SMTBytes int               `json:"smt_bytes"`
}

var engineMu sync.Mutex

func hasTag(tags []string, p string) bool {
	for _, t := range tags {
		if t == p {
			return true
		}
	}
	return false
}

func specMentions(s *FuncSpec, p string) bool {
	for _, c := range s.Requires {
		if hasTag(c.Tags, p) {
			return true
		}
	}
	for _, c := range s.Ensures {
		if hasTag(c.Tags, p) {
			return true
		}
	}
	for _, l := range s.Loops {
		for _, c := range l.Invariants {
			if hasTag(c.Tags, p) {
				return true
			}
		}
		if l.Decreases != nil && hasTag(l.Decreases.Tags, p) {
			return true
		}
		for _, c := range l.Increases {
			if hasTag(c.Tags, p) {
				return true
			}
		}
	}
	for _, b := range s.Before {
		if hasTag(b.C.Tags, p) {
			return true
		}
	}
	return hasTag(s.SweepTags, p)
}

func cmdCheck(args []string) int {
	fs := flag.NewFlagSet("check", flag.ExitOnError)
	repo := fs.String("repo", "/repo", "repository to check")
	prop := fs.String("prop", "", "property id")
	tier := fs.String("tier", "quick", "quick|thorough")
	out := fs.String("out", "", "evidence file")
	only := fs.String("only", "", "substring filter on obligation names (debug)")
	keep := fs.Bool("keep", false, "keep SMT files of failed obligations in work/")
	verbose := fs.Bool("v", false, "verbose")
	known := fs.String("known", "/verif/known_findings.json", "known findings file")
	fs.Parse(args)
	if *prop == "" {
		fmt.Fprintln(os.Stderr, "need --prop")
		return 2
	}
	if t := os.Getenv("VERIF_TIER"); t != "" && !flagSet(fs, "tier") {
		*tier = t
	}
	seed := 0
	fmt.Sscanf(os.Getenv("VERIF_SEED"), "%d", &seed)
	if *out == "" {
		*out = fmt.Sprintf("/verif/evidence/%s.json", *prop)
	}
	start := time.Now()
	e, err := loadEngine(*repo, "/verif/contracts/repo")
	if err != nil {
		// a tree that does not load cannot be checked: report as broken run, not as a violation
		fmt.Fprintf(os.Stderr, "govc: cannot load %s: %v\n", *repo, err)
		return 2
	}
	e.seed = seed
	if *tier == "thorough" {
		e.timeoutS = 60
		e.need = 2
		e.thorough = true
	}
	if err := e.loadSpecs("/verif/contracts/extern"); err != nil {
		fmt.Fprintf(os.Stderr, "govc: contract files: %v\n", err)
		return 2
	}
	if os.Getenv("GOVC_LINT") != "" {
		for _, l := range e.specLint {
			fmt.Fprintln(os.Stderr, "lint:", l)
		}
	}
	loadT := time.Since(start).Seconds()
	for _, s := range e.specs.funcs {
		if !s.Trusted && hasTag(s.TrustedTags, *prop) {
			s.Trusted = true
		}
	}

	// ---- select functions
	var fns []*ssa.Function
	seenFn := map[*ssa.Function]bool{}
	for name, s := range e.specs.funcs {
		if s.Extern || s.IsCallSpec || s.Trusted {
			continue
		}
		if !specMentions(s, *prop) {
			continue
		}
		fn := e.funcsByName[name]
		if fn == nil || len(fn.Blocks) == 0 {
			continue
		}
		if !seenFn[fn] {
			seenFn[fn] = true
			fns = append(fns, fn)
		}
	}
	// functions touching fields guarded under this property's tag
	for _, fn := range append(e.guardedAccessors(*prop), e.restrictedWriters(*prop)...) {
		if !seenFn[fn] {
			seenFn[fn] = true
			fns = append(fns, fn)
		}
	}
	// sweep scopes: every function declared in the listed files
	scopeKinds := map[*ssa.Function][]string{}
	for _, sf := range e.specs.files {
		for _, sc := range sf.Scopes {
			if !hasTag(sc.Tags, *prop) {
				continue
			}
			files := map[string]bool{}
			for _, f := range sc.Files {
				files[f] = true
			}
			for _, fn := range e.funcsByName {
				root := fn
				for root.Parent() != nil {
					root = root.Parent()
				}
				if root.Pkg == nil || !inModule(root.Pkg.Pkg) || fn.Synthetic != "" || len(fn.Blocks) == 0 || !fn.Pos().IsValid() {
					continue
				}
				if fn.Parent() != nil && onlyInlined(fn) {
					continue // closure that is only deferred / called in place: checked where it is inlined
				}
				if e.deadFuncs()[root] {
					e.deadSkipped[root.String()] = true
					continue // unreachable: nothing can run it
				}
				if !files[strings.TrimPrefix(e.fset.Position(fn.Pos()).Filename, e.repo+"/")] {
					continue
				}
				skip := false
				for _, ex := range sc.Except {
					if strings.Contains(fn.String(), ex) {
						skip = true
					}
				}
				if skip {
					continue
				}
				scopeKinds[fn] = append(scopeKinds[fn], sc.Kinds...)
				if !seenFn[fn] {
					seenFn[fn] = true
					fns = append(fns, fn)
				}
			}
		}
	}
	e.scopeKinds = scopeKinds
	sort.Slice(fns, func(i, j int) bool { return fns[i].String() < fns[j].String() })

	// ---- callers of marked library functions must be under contract for this property
	for name, s := range e.specs.funcs {
		if !hasTag(s.CallersNeed, *prop) {
			continue
		}
		for _, fn := range e.funcsByName {
			root := fn
			for root.Parent() != nil {
				root = root.Parent()
			}
			if root.Pkg == nil || !inModule(root.Pkg.Pkg) || fn.Synthetic != "" {
				continue
			}
			calls := false
			for _, b := range fn.Blocks {
				for _, in := range b.Instrs {
					if c, ok := in.(ssa.CallInstruction); ok {
						if sc := c.Common().StaticCallee(); sc != nil && sc.String() == name {
							calls = true
						}
					}
				}
			}
			if !calls {
				continue
			}
			if sp := e.specFor(fn); sp == nil || !specMentions(sp, *prop) {
				e.stale = append(e.stale, fmt.Sprintf("%s calls %s but has no %s contract (every function that builds such a request must be under contract)", fnShortName(fn), shortCallee(name), *prop))
			}
		}
	}

	// ---- callers of library functions marked "callers-checked <prop>" are all checked
	for name, s := range e.specs.funcs {
		if !hasTag(s.CallersChecked, *prop) {
			continue
		}
		for _, fn := range e.funcsByName {
			root := fn
			for root.Parent() != nil {
				root = root.Parent()
			}
			if root.Pkg == nil || !inModule(root.Pkg.Pkg) || fn.Synthetic != "" || len(fn.Blocks) == 0 || e.deadFuncs()[root] || seenFn[fn] {
				continue
			}
			if fn.Parent() != nil && onlyInlined(fn) {
				continue
			}
			calls := false
			for _, b := range fn.Blocks {
				for _, in := range b.Instrs {
					if c, ok := in.(ssa.CallInstruction); ok {
						if sc := c.Common().StaticCallee(); sc != nil && sc.String() == name {
							calls = true
						}
					}
				}
			}
			if calls {
				seenFn[fn] = true
				fns = append(fns, fn)
			}
		}
	}
	sort.Slice(fns, func(i, j int) bool { return fns[i].String() < fns[j].String() })

	// ---- translate (worklist: callees whose contracts were used are verified too)
	e.curProp = *prop
	var results []*FnCtx
	pending := fns
	for len(pending) > 0 {
		batch := make([]*FnCtx, len(pending))
		var wg sync.WaitGroup
		for i, fn := range pending {
			wg.Add(1)
			go func(i int, fn *ssa.Function) {
				defer wg.Done()
				f := newFnCtx(e, fn)
				func() {
					defer func() {
						if r := recover(); r != nil {
							f.fail("internal error while translating: %v", r)
						}
					}()
					engineMu.Lock()
					defer engineMu.Unlock()
					f.translate()
				}()
				batch[i] = f
			}(i, fn)
		}
		wg.Wait()
		results = append(results, batch...)
		pending = nil
		for _, f := range batch {
			for _, name := range sortedKeys(f.usedSpecs) {
				fn := e.funcsByName[name]
				if fn == nil || len(fn.Blocks) == 0 || seenFn[fn] {
					continue
				}
				seenFn[fn] = true
				pending = append(pending, fn)
			}
		}
	}
	transT := time.Since(start).Seconds() - loadT

	// ---- lemmas
	lemmaCtx := newLemmaCtx(e)
	for _, l := range e.specs.lemmas {
		if hasTag(l.Tags, *prop) {
			lemmaCtx.addLemma(l)
		}
	}

	// ---- collect obligations
	var obls []*Obligation
	var staleMsgs []string
	for _, f := range append(results, lemmaCtx) {
		if f == nil {
			continue
		}
		for _, er := range f.errs {
			staleMsgs = append(staleMsgs, fnShortName0(f)+": "+er)
		}
		for _, o := range f.obls {
			if len(o.Tags) == 0 || hasTag(o.Tags, *prop) {
				if *only != "" && !strings.Contains(o.Name, *only) {
					continue
				}
				obls = append(obls, o)
			}
		}
	}
	for _, ss := range e.staleTagged {
		if specMentions(ss.spec, *prop) {
			e.stale = append(e.stale, ss.msg)
		}
	}
	for _, s := range e.stale {
		staleMsgs = append(staleMsgs, s)
	}

	// ---- known findings
	var kf KnownFile
	if data, err := os.ReadFile(*known); err == nil {
		json.Unmarshal(data, &kf)
	}
	kfBy := map[string][]KnownFinding{}
	for _, k := range kf.Findings {
		if k.Property == *prop && k.Status != "fixed" {
			kfBy[k.Obligation] = append(kfBy[k.Obligation], k)
		}
	}

	// ---- discharge
	var dwg sync.WaitGroup
	for _, o := range obls {
		dwg.Add(1)
		go func(o *Obligation) {
			defer dwg.Done()
			o.discharge(e)
		}(o)
	}
	dwg.Wait()

	// ---- evaluate
	var reports []OblReport
	bySolver := map[string]int{}
	solverTime := 0.0
	nObl, nDis := 0, 0
	var violations []string
	var knownLines []string
	var broken []string
	vac := map[string]string{}
	replayDir := filepath.Join(filepath.Dir(*out), "replay", *prop)
	os.RemoveAll(replayDir)
	var vacuous []*Obligation
	sort.Slice(obls, func(i, j int) bool { return obls[i].Name < obls[j].Name })
	for _, o := range obls {
		r := OblReport{Name: o.Name, Kind: o.Kind, Func: shortCallee(o.Func), Src: o.Src, Line: o.Line, Verdict: o.Res.Verdict, Solver: o.Res.Solver, Time: o.Res.Time, All: o.Res.All, SMTBytes: len(o.Query)}
		solverTime += o.Res.Time
		if o.Cover {
			vac[o.Name] = o.Res.Verdict
			if o.Res.Verdict == "unsat" {
				// the code behind this point is unreachable under the contracts: everything proved there holds
				// vacuously.  Reported as a violation of the cover obligation (it passes on the unchanged tree).
				vacuous = append(vacuous, o)
			}
			reports = append(reports, r)
			continue
		}
		nObl++
		if o.Res.Verdict == "unsat" {
			nDis++
			bySolver[o.Res.Solver]++
			reports = append(reports, r)
			continue
		}
		// failed: known finding?
		handled := false
		kname := o.Name
		if _, ok := kfBy[kname]; !ok {
			kname = stripOrdinal(o.Name)
		}
		ks, ok := kfBy[kname]
		listedOnly := ok && len(ks) > 0 && ks[0].Witness == ""
		if !ok {
			// a finding about a field ("...#frame:final:T.f", "...#guarded:T.f:read") stays the same
			// finding when the offending statement moves to another function: match by the part
			// after the function name when the entry is written as "*#<rest>"
			if i := strings.Index(kname, "#"); i >= 0 {
				ks, ok = kfBy["*"+kname[i:]]
				listedOnly = ok && len(ks) > 0 && ks[0].Witness == ""
			}
		}
		if ok {
			for _, k := range ks {
				if k.Witness == "" {
					knownLines = append(knownLines, fmt.Sprintf("KNOWN-FINDING: property=%s %s [%s]", *prop, k.What, o.Name))
					handled = true
					break
				}
				// re-query under not-W
				res, err := o.dischargeUnderNot(e, k.Witness)
				if err != nil {
					broken = append(broken, fmt.Sprintf("known finding witness for %s: %v", o.Name, err))
					continue
				}
				if res.Verdict == "unsat" {
					knownLines = append(knownLines, fmt.Sprintf("KNOWN-FINDING: property=%s %s [%s, witness %s]", *prop, k.What, o.Name, k.Witness))
					handled = true
					r.Verdict = "known-finding(" + o.Res.Verdict + "); unsat under not(" + k.Witness + ")"
					nDis++
					bySolver[res.Solver]++
					break
				}
			}
		}
		reports = append(reports, r)
		if handled {
			if listedOnly {
				nObl-- // findings without a witness are listed, not counted
			}
			continue
		}
		path := writeReplay(e, replayDir, *prop, o, *keep)
		suffix := ""
		if !o.replayed {
			suffix = " no-failing-input-found"
		}
		violations = append(violations, fmt.Sprintf("VIOLATION property=%s replay=%s obligation=%s verdict=%s%s", *prop, path, o.Name, o.Res.Verdict, suffix))
	}
	for _, o := range vacuous {
		path := filepath.Join(replayDir, sanitize(o.Name)+".json")
		os.MkdirAll(replayDir, 0o755)
		data, _ := json.MarshalIndent(map[string]string{"obligation": o.Name, "detail": "the assumptions at this point are contradictory (" + o.Src + "): what is proved behind it holds vacuously", "clause_at": o.Line}, "", " ")
		os.WriteFile(path, data, 0o644)
		violations = append(violations, fmt.Sprintf("VIOLATION property=%s replay=%s obligation=%s verdict=vacuous no-failing-input-found", *prop, path, o.Name))
	}
	for _, wr := range e.wireChecks() {
		nObl++
		r := OblReport{Name: wr.name, Kind: "structural", Src: "struct tag fixes the JSON member", Line: wr.line, Verdict: "unsat", Solver: "structural"}
		if wr.ok {
			nDis++
			bySolver["structural"]++
			reports = append(reports, r)
			continue
		}
		r.Verdict = "sat"
		reports = append(reports, r)
		path := filepath.Join(replayDir, sanitize(wr.name)+".json")
		os.MkdirAll(replayDir, 0o755)
		data, _ := json.MarshalIndent(map[string]string{"obligation": wr.name, "detail": wr.detail, "clause_at": wr.line}, "", " ")
		os.WriteFile(path, data, 0o644)
		violations = append(violations, fmt.Sprintf("VIOLATION property=%s replay=%s obligation=%s detail=%q no-failing-input-found", *prop, path, wr.name, wr.detail))
	}
	for i, m := range staleMsgs {
		path := filepath.Join(replayDir, fmt.Sprintf("stale_%d.json", i))
		os.MkdirAll(replayDir, 0o755)
		data, _ := json.MarshalIndent(map[string]string{"obligation": "stale-contract", "detail": m}, "", " ")
		os.WriteFile(path, data, 0o644)
		violations = append(violations, fmt.Sprintf("VIOLATION property=%s replay=%s obligation=stale-contract detail=%q no-failing-input-found", *prop, path, m))
	}
	if nObl == 0 && len(violations) == 0 {
		broken = append(broken, "no obligations were generated for "+*prop)
	}

	// ---- evidence
	var funcsUnder []string
	abstr := map[string]int{}
	exact := map[string]int{}
	trusted := map[string]bool{}
	inlined := map[string]bool{}
	var notes []string
	for _, f := range results {
		if f == nil {
			continue
		}
		funcsUnder = append(funcsUnder, fnShortName(f.fn))
		for k, v := range f.abstr {
			abstr[k] += v
		}
		for k, v := range f.exact {
			exact[k] += v
		}
		for k := range f.trusted {
			trusted[k] = true
		}
		for k := range f.inlined {
			inlined[k] = true
		}
		notes = append(notes, f.notes...)
	}
	var tb []string
	tb = append(tb, "go/types + go/ssa (x/tools v0.29.0): the SSA form is the semantics that is verified",
		"govc VC generator (/verif/govc)", "SMT solvers z3 4.8.12, z3-new 5.1.0, cvc5 1.0.x",
		"machine integers treated as mathematical integers within their type ranges (no wrap-around) unless an overflow obligation is listed",
		"sequential reasoning per function; interference from other goroutines only at lock acquisitions of declared guarded fields",
		"append modelled as copy; map iteration yields present keys; select is a free choice among its cases")
	for _, k := range sortedKeys(trusted) {
		tb = append(tb, "assumed contract: "+k)
	}
	for _, k := range sortedKeys(inlined) {
		tb = append(tb, "inlined (not under contract): "+k)
	}
	var samples []interface{}
	for i, r := range reports {
		if i < 4 || (r.Verdict != "unsat" && len(samples) < 8) {
			samples = append(samples, r)
		}
	}
	if n := len(e.specLint); n > 0 {
		notes = append(notes, fmt.Sprintf("%d contracts speak about the new value of a stable ghost without listing it in modifies: listed implicitly (first: %s)", n, e.specLint[0]))
	}
	if r := atomic.LoadInt32(&e.retries); r > 0 {
		notes = append(notes, fmt.Sprintf("%d obligation(s) got no answer within %d s and were retried with a long limit", r, e.timeoutS))
	}
	meta := propMeta[*prop]
	cov := map[string]interface{}{
		"obligations":              nObl,
		"discharged":               nDis,
		"checker_cmd":              fmt.Sprintf("/verif/bin/check %s --tier %s", *prop, *tier),
		"trusted_base":             tb,
		"samples":                  samples,
		"functions_under_contract": funcsUnder,
		"by_solver":                bySolver,
		"solver_time_s":            round3(solverTime),
		"load_s":                   round3(loadT),
		"translate_s":              round3(transT),
		"abstraction_report":       map[string]interface{}{"translated_exactly": exact, "replaced_by_unconstrained_value": abstr},
		"vacuity_covers":           vac,
		"known_findings":           knownLines,
		"all_obligations":          reports,
		"not_covered":              meta.NotCovered,
		"unreachable_functions_left_out_of_sweeps": sortedKeys(e.deadSkipped),
		"notes":                     notes,
		"timeout_s":                 e.timeoutS,
		"solvers_required_to_agree": e.need,
	}
	ev := map[string]interface{}{
		"property_id": *prop,
		"tier":        *tier,
		"seed":        seed,
		"level":       "proof",
		"coverage":    cov,
		"assumptions": append([]string{}, meta.Assumptions...),
		"wall_s":      round3(time.Since(start).Seconds()),
		"violations":  len(violations),
	}
	os.MkdirAll(filepath.Dir(*out), 0o755)
	data, _ := json.MarshalIndent(ev, "", " ")
	os.WriteFile(*out, data, 0o644)

	seenKL := map[string]bool{}
	for _, l := range knownLines {
		b := l
		if k := strings.Index(b, " ["); k >= 0 {
			b = b[:k]
		}
		if !seenKL[b] {
			seenKL[b] = true
			fmt.Println(l)
		}
	}
	if *verbose {
		for _, r := range reports {
			fmt.Printf("  %-8s %-8s %6.2fs %s\n", r.Verdict, r.Solver, r.Time, r.Name)
		}
		for k, v := range abstr {
			fmt.Printf("  abstracted: %s x%d\n", k, v)
		}
	}
	fmt.Printf("%s: %d/%d obligations discharged over %d functions (%0.1fs)\n", *prop, nDis, nObl, len(funcsUnder), time.Since(start).Seconds())
	if len(broken) > 0 {
		for _, b := range broken {
			fmt.Fprintln(os.Stderr, "BROKEN-CHECK:", b)
		}
		return 2
	}
	if len(violations) > 0 {
		for _, v := range violations {
			fmt.Println(v)
		}
		return 1
	}
	return 0
}

func flagSet(fs *flag.FlagSet, name string) bool {
	found := false
	fs.Visit(func(f *flag.Flag) {
		if f.Name == name {
			found = true
		}
	})
	return found
}

func round3(x float64) float64 { return float64(int(x*1000)) / 1000 }

func fnShortName0(f *FnCtx) string {
	if f.fn == nil {
		return "lemmas"
	}
	return fnShortName(f.fn)
}

func (o *Obligation) discharge(e *Engine) {
	f := o.f
	if o.Cover {
		f.mu.Lock()
		assumes := f.assumptionsFor(o, -1)
		o.Query = f.c.query(append(assumes, o.goal), "", false, "")
		f.mu.Unlock()
		o.Res = runQuery(o.Name, o.Query, e.timeoutS, e.seed, 1)
		return
	}
	// staged: few hypotheses first (fast, and sound: fewer hypotheses can only lose a proof)
	total := 0.0
	stages := []struct{ depth, timeout int }{{1, 3}, {3, 5}, {-1, e.timeoutS}}
	for i, stg := range stages {
		f.mu.Lock()
		assumes := f.assumptionsFor(o, stg.depth)
		q := f.c.query(assumes, o.goal, true, "")
		f.mu.Unlock()
		t := stg.timeout
		if t > e.timeoutS {
			t = e.timeoutS
		}
		if d := os.Getenv("GOVC_DUMP"); d != "" && strings.Contains(o.Name, d) {
			os.MkdirAll(workDir, 0o755)
			os.WriteFile(fmt.Sprintf("%s/dump_%s.s%d.smt2", workDir, sanitize(o.Name), i), []byte(q), 0o644)
		}
		res := runQuery(fmt.Sprintf("%s.s%d", o.Name, i), q, t, e.seed, e.need)
		total += res.Time
		if stg.depth < 0 && res.Verdict != "unsat" && res.Verdict != "sat" && atomic.AddInt32(&e.retries, 1) <= 6 {
			// no answer within the time limit (a loaded machine, or a hard query): one more attempt with a
			// generous limit before the obligation is reported as undischarged; at most 6 such retries per run
			long := 6 * e.timeoutS
			if long < 90 {
				long = 90
			}
			res2 := runQuery(fmt.Sprintf("%s.s%d.retry", o.Name, i), q, long, e.seed, 1)
			total += res2.Time
			if res2.Verdict == "unsat" || res2.Verdict == "sat" {
				res = res2
			}
		}
		if res.Verdict == "unsat" || stg.depth < 0 {
			o.Query = q
			o.Res = res
			o.Res.Time = total
			o.stage = i
			return
		}
	}
}

func (o *Obligation) dischargeUnderNot(e *Engine, witness string) (solverResult, error) {
	f := o.f
	if f.entryFrame == nil {
		return solverResult{}, fmt.Errorf("no entry frame")
	}
	ex, err := parseExprString(witness)
	if err != nil {
		return solverResult{}, err
	}
	env := f.entryFrame.specEnv(f.entryHeap, f.entryHeap, nil)
	w, err := env.evalBool(ex)
	if err != nil {
		return solverResult{}, err
	}
	assumes := append(f.assumptionsFor(o, -1), not(w))
	q := f.c.query(assumes, o.goal, true, "")
	return runQuery(o.Name+".notW", q, e.timeoutS, e.seed, e.need), nil
}

func writeReplay(e *Engine, dir, prop string, o *Obligation, keep bool) string {
	os.MkdirAll(dir, 0o755)
	path := filepath.Join(dir, sanitize(o.Name)+".json")
	if len(path) > 200 {
		path = filepath.Join(dir, fmt.Sprintf("%s_%x.json", sanitize(o.Name)[:100], hash32(o.Name)))
	}
	model := ""
	if o.Res.Verdict == "sat" {
		model = getModel(o.Name, o.Query, e.timeoutS)
	}
	rep := map[string]interface{}{
		"property":   prop,
		"obligation": o.Name,
		"kind":       o.Kind,
		"function":   o.Func,
		"clause":     o.Src,
		"clause_at":  o.Line,
		"verdict":    o.Res.Verdict,
		"solvers":    o.Res.All,
		"model":      model,
		"smt_query":  o.Query,
	}
	tryReplay(e, prop, o, model, rep)
	data, _ := json.MarshalIndent(rep, "", " ")
	os.WriteFile(path, data, 0o644)
	return path
}

// guardedAccessors: module functions that access a field guarded under tag p.
func (e *Engine) guardedAccessors(p string) []*ssa.Function {
	guarded := map[string]map[string]bool{} // type key -> fields
	for k, ts := range e.specs.types {
		for _, g := range ts.Guarded {
			if hasTag(g.Tags, p) {
				m := guarded[k]
				if m == nil {
					m = map[string]bool{}
					guarded[k] = m
				}
				for _, f := range g.Fields {
					m[f] = true
				}
			}
		}
	}
	if len(guarded) == 0 {
		return nil
	}
	var out []*ssa.Function
	for _, fn := range e.funcsByName {
		if fn.Pkg == nil && fn.Parent() == nil {
			continue
		}
		root := fn
		for root.Parent() != nil {
			root = root.Parent()
		}
		if root.Pkg == nil || !inModule(root.Pkg.Pkg) || fn.Synthetic != "" {
			continue
		}
		touch := false
		for _, b := range fn.Blocks {
			for _, in := range b.Instrs {
				fa, ok := in.(*ssa.FieldAddr)
				if !ok {
					continue
				}
				pt, ok := fa.X.Type().Underlying().(*types.Pointer)
				if !ok {
					continue
				}
				n, ok := pt.Elem().(*types.Named)
				if !ok || n.Obj().Pkg() == nil {
					continue
				}
				if m := guarded[n.Obj().Pkg().Path()+"."+n.Obj().Name()]; m != nil {
					if m[pt.Elem().Underlying().(*types.Struct).Field(fa.Field).Name()] {
						touch = true
					}
				}
			}
		}
		if touch {
			out = append(out, fn)
		}
	}
	return out
}

// ---------------------------------------------------------------------------
// lemma context

func newLemmaCtx(e *Engine) *FnCtx {
	c := newCtx()
	f := &FnCtx{e: e, c: c, hs: newHeapSpace(c), abstr: map[string]int{}, exact: map[string]int{},
		loopFrames: map[string]*loopFrame{}, sweep: map[string]bool{}, ifaceUsed: map[string]*types.Interface{},
		oblNames: map[string]int{}, closures: map[string]*closureInfo{}, localAllocs: map[string]bool{}, callOrd: map[string]int{},
		trusted: map[string]bool{}, inlined: map[string]bool{}, usedSpecs: map[string]bool{}}
	f.entryHeap = f.hs.entry()
	return f
}

func (f *FnCtx) addLemma(l *LemmaSpec) {
	st := &bstate{reach: "true", heap: f.entryHeap, seg: f.newSeg()}
	env := f.newEnv(l.Pkg, f.entryHeap, f.entryHeap, map[string]Val{}, nil)
	v, err := env.evalBool(l.E)
	if err != nil {
		f.fail("%s: lemma %s: %v", l.Line, l.Name, err)
		return
	}
	f.seq++
	o := &Obligation{Name: "lemma:" + l.Name, Kind: "lemma", Tags: l.Tags, Src: l.Src, Line: l.Line, Func: "lemma", seg: st.seg, seq: f.seq, goal: v, f: f}
	f.obls = append(f.obls, o)
	f.finishGlobals()
}

// restrictedWriters: module functions that store to a final/private field
// declared under tag p (each such store is a frame obligation).
func (e *Engine) restrictedWriters(p string) []*ssa.Function {
	fields := map[string]map[string]bool{}
	for k, ts := range e.specs.types {
		add := func(names []string) {
			m := fields[k]
			if m == nil {
				m = map[string]bool{}
				fields[k] = m
			}
			for _, n := range names {
				m[n] = true
			}
		}
		for _, fd := range ts.FinalDecls {
			if hasTag(fd.Tags, p) {
				add(fd.Fields)
			}
		}
		for _, pd := range ts.Private {
			if hasTag(pd.Tags, p) {
				add(pd.Fields)
			}
		}
		for _, fz := range ts.Frozen {
			if hasTag(fz.Tags, p) {
				add([]string{"*"})
			}
		}
	}
	if len(fields) == 0 {
		return nil
	}
	var out []*ssa.Function
	for _, fn := range e.funcsByName {
		root := fn
		for root.Parent() != nil {
			root = root.Parent()
		}
		if root.Pkg == nil || !inModule(root.Pkg.Pkg) || fn.Synthetic != "" {
			continue
		}
		touch := false
		for _, b := range fn.Blocks {
			for _, in := range b.Instrs {
				var fa *ssa.FieldAddr
				switch x := in.(type) {
				case *ssa.Store:
					fa, _ = x.Addr.(*ssa.FieldAddr)
				case *ssa.MapUpdate:
					if u, ok := x.Map.(*ssa.UnOp); ok {
						fa, _ = u.X.(*ssa.FieldAddr)
					}
				case *ssa.Call:
					if b, ok := x.Call.Value.(*ssa.Builtin); ok && b.Name() == "delete" && len(x.Call.Args) > 0 {
						if u, ok := x.Call.Args[0].(*ssa.UnOp); ok {
							fa, _ = u.X.(*ssa.FieldAddr)
						}
					}
				}
				if fa == nil {
					continue
				}
				pt, ok := fa.X.Type().Underlying().(*types.Pointer)
				if !ok {
					continue
				}
				n, ok := pt.Elem().(*types.Named)
				if !ok || n.Obj().Pkg() == nil {
					continue
				}
				if m := fields[n.Obj().Pkg().Path()+"."+n.Obj().Name()]; m != nil && (m["*"] || m[pt.Elem().Underlying().(*types.Struct).Field(fa.Field).Name()]) {
					touch = true
				}
			}
		}
		if touch {
			out = append(out, fn)
		}
	}
	return out
}

// onlyInlined: an anonymous function all of whose uses are a defer or a direct
// call in its parent; such closures are inlined at those sites.
func onlyInlined(fn *ssa.Function) bool {
	p := fn.Parent()
	if p == nil {
		return false
	}
	found := false
	for _, b := range p.Blocks {
		for _, in := range b.Instrs {
			mc, ok := in.(*ssa.MakeClosure)
			if !ok || mc.Fn != fn {
				continue
			}
			found = true
			refs := mc.Referrers()
			if refs == nil {
				return false
			}
			for _, r := range *refs {
				switch u := r.(type) {
				case *ssa.DebugRef:
				case *ssa.Defer:
					if u.Call.Value != mc {
						return false
					}
				case *ssa.Call:
					if u.Call.Value != mc {
						return false
					}
				default:
					return false
				}
			}
		}
	}
	return found
}

var ordinalRe = regexp.MustCompile(`#[0-9]+$`)

// stripOrdinal: "f#kind:x#3" -> "f#kind:x" (repeated instances of one obligation, e.g. through inlining)
func stripOrdinal(s string) string { return ordinalRe.ReplaceAllString(s, "") }
