package main

// Evaluation of contract expressions to symbolic values.

import (
	"fmt"
	"go/constant"
	"go/types"
	"strings"

	"golang.org/x/tools/go/ssa"
)

type Env struct {
	f          *FnCtx
	pkg        string
	heap       *Heap
	old        *Heap
	vars       map[string]Val
	results    []Val
	bound      map[string]Val
	depth      int
	recName    string
	noInst     bool
	recSym     string
	entryVars  map[string]Val
	atCallSite bool
	headEnv    *Env // loop step clauses: the state at the loop head of the iteration that just ended (athead)
}

var errSkipClause = fmt.Errorf("clause not usable at a call site")

func (f *FnCtx) newEnv(pkg string, heap, old *Heap, vars map[string]Val, results []Val) *Env {
	if pkg == "" {
		pkg = modulePath
	}
	return &Env{f: f, pkg: pkg, heap: heap, old: old, vars: vars, results: results, bound: map[string]Val{}}
}

func (fr *frame) specEnv(heap, old *Heap, results []Val) *Env {
	vars := map[string]Val{}
	for n, v := range fr.params {
		vars[n] = v
	}
	pkg := modulePath
	if fr.fn.Pkg != nil {
		pkg = fr.fn.Pkg.Pkg.Path()
	} else if fr.fn.Parent() != nil && fr.fn.Parent().Pkg != nil {
		pkg = fr.fn.Parent().Pkg.Pkg.Path()
	}
	if fr.spec != nil && fr.spec.Pkg != "" {
		pkg = fr.spec.Pkg
	}
	// free variables of closures by name (pointer to the captured cell): expose the cell contents
	for i, fv := range fr.fn.FreeVars {
		_ = i
		v := fr.vals[fv]
		if pt, ok := fv.Type().Underlying().(*types.Pointer); ok {
			vars[fv.Name()] = fr.f.load(heap, v, pt.Elem())
			vars["&"+fv.Name()] = v
		} else {
			vars[fv.Name()] = v
		}
	}
	// named results
	if results != nil && fr.fn.Signature.Results() != nil {
		rs := fr.fn.Signature.Results()
		for i := 0; i < rs.Len() && i < len(results); i++ {
			if n := rs.At(i).Name(); n != "" && n != "_" {
				if _, clash := vars[n]; !clash {
					vars[n] = results[i]
				}
			}
		}
	}
	return fr.f.newEnv(pkg, heap, old, vars, results)
}

// addVars adds the source-level variables visible at a program point; they
// shadow parameters of the same name (a reassigned parameter), whose entry
// value stays reachable through old(name).
func (e *Env) addVars(m map[string]Val) {
	if e.entryVars == nil {
		e.entryVars = e.vars
	}
	nv := map[string]Val{}
	for k, v := range e.vars {
		nv[k] = v
	}
	for k, v := range m {
		nv[k] = v
	}
	e.vars = nv
}

func (e *Env) with(heap *Heap) *Env {
	c := *e
	c.heap = heap
	return &c
}

func (e *Env) evalBool(x Expr) (string, error) {
	v, err := e.eval(x)
	if err != nil {
		return "", err
	}
	if v.K != KBool {
		return "", fmt.Errorf("expected a boolean, got %v (%s)", v.K, v)
	}
	return v.Tm, nil
}

func (e *Env) pkgByName(name string) *types.Package {
	// imports of the spec's package first
	if p := e.f.e.tpkgs[e.pkg]; p != nil {
		for _, imp := range p.Imports() {
			if imp.Name() == name {
				return imp
			}
		}
	}
	var best *types.Package
	for path, p := range e.f.e.tpkgs {
		if p.Name() == name {
			if best == nil || len(path) < len(best.Path()) {
				best = p
			}
		}
	}
	return best
}

func (e *Env) constVal(c *types.Const) (Val, error) {
	t := c.Type()
	k := kindOf(t)
	switch k {
	case KBool:
		if constant.BoolVal(c.Val()) {
			return boolVal("true"), nil
		}
		return boolVal("false"), nil
	case KInt:
		return Val{K: KInt, T: t, Tm: bigIntLit(constant.ToInt(c.Val()).ExactString())}, nil
	case KFloat:
		fv, _ := constant.Float64Val(constant.ToFloat(c.Val()))
		return Val{K: KFloat, T: t, Tm: floatLit(fv)}, nil
	case KString:
		return Val{K: KString, T: t, Tm: strLit(constant.StringVal(c.Val()))}, nil
	}
	return Val{}, fmt.Errorf("constant %s of unsupported type", c.Name())
}

func (e *Env) lookupObj(pkg *types.Package, name string) (Val, bool, error) {
	if pkg == nil {
		return Val{}, false, nil
	}
	obj := pkg.Scope().Lookup(name)
	if obj == nil {
		return Val{}, false, nil
	}
	switch o := obj.(type) {
	case *types.Const:
		v, err := e.constVal(o)
		return v, true, err
	case *types.Var:
		sp := e.f.e.spkgs[pkg.Path()]
		if sp == nil {
			return Val{}, true, fmt.Errorf("package %s not built", pkg.Path())
		}
		g, ok := sp.Members[name].(*ssa.Global)
		if !ok {
			return Val{}, true, fmt.Errorf("global %s not found", name)
		}
		fr := &frame{f: e.f}
		return fr.loadGlobal(g, nil), true, nil
	case *types.Func:
		sp := e.f.e.spkgs[pkg.Path()]
		if sp != nil {
			if fn := sp.Func(name); fn != nil {
				return Val{K: KRef, T: fn.Type(), Tm: intLit(int64(e.f.e.fnID(fn)))}, true, nil
			}
		}
	}
	return Val{}, false, nil
}

func (e *Env) eval(x Expr) (Val, error) {
	f := e.f
	switch n := x.(type) {
	case *EBool:
		if n.V {
			return boolVal("true"), nil
		}
		return boolVal("false"), nil
	case *EInt:
		return Val{K: KInt, T: types.Typ[types.Int], Tm: bigIntLit(n.V)}, nil
	case *EFloat:
		return Val{K: KFloat, T: types.Typ[types.Float64], Tm: floatLit(n.V)}, nil
	case *EStr:
		return Val{K: KString, T: types.Typ[types.String], Tm: strLit(n.V)}, nil
	case *ENil:
		return Val{K: KRef, T: types.Typ[types.UntypedNil], Tm: "0"}, nil
	case *EIdent:
		if v, ok := e.bound[n.Name]; ok {
			return v, nil
		}
		if v, ok := e.vars[n.Name]; ok {
			return v, nil
		}
		if strings.HasPrefix(n.Name, "result") || strings.HasPrefix(n.Name, "ret") && (len(n.Name) == 3 || n.Name[3] >= '0' && n.Name[3] <= '9') {
			idx := 0
			digits := strings.TrimPrefix(strings.TrimPrefix(n.Name, "result"), "ret")
			if digits != "" {
				if _, err := fmt.Sscanf(digits, "%d", &idx); err != nil {
					return Val{}, fmt.Errorf("unknown identifier %q", n.Name)
				}
			}
			if idx < len(e.results) {
				return e.results[idx], nil
			}
			return Val{}, fmt.Errorf("%s: no such result", n.Name)
		}
		if g, ok := f.e.specs.ghosts[n.Name]; ok && len(g.Params) == 0 {
			t, err := f.e.resolveType(g.Pkg, g.T)
			if err != nil {
				return Val{}, err
			}
			key := f.ghostKey(g.Name, sortOfType(t), false, "")
			return Val{K: kindOf(t), T: t, Tm: f.hs.read(e.heap, key)}, nil
		}
		if v, ok, err := e.lookupObj(f.e.tpkgs[e.pkg], n.Name); ok || err != nil {
			return v, err
		}
		if p, ok := f.e.specs.preds[n.Name]; ok && len(p.Params) == 0 {
			return e.applyPred(p, nil)
		}
		// module-wide fallback for extern spec files
		for path, tp := range f.e.tpkgs {
			if strings.HasPrefix(path, modulePath) && path != e.pkg {
				if v, ok, err := e.lookupObj(tp, n.Name); ok || err != nil {
					return v, err
				}
			}
		}
		return Val{}, fmt.Errorf("unknown identifier %q", n.Name)
	case *EOld:
		o := e.with(e.old)
		if e.entryVars != nil {
			o.vars = e.entryVars
		}
		return o.eval(n.X)
	case *EUnary:
		v, err := e.eval(n.X)
		if err != nil {
			return Val{}, err
		}
		switch n.Op {
		case "!":
			if v.K != KBool {
				return Val{}, fmt.Errorf("! on non-bool")
			}
			return boolVal(not(v.Tm)), nil
		case "-":
			if v.K == KFloat {
				return Val{K: KFloat, T: v.T, Tm: app("fp.neg", v.Tm)}, nil
			}
			return Val{K: KInt, T: v.T, Tm: app("-", v.Tm)}, nil
		case "*":
			pt, ok := v.T.Underlying().(*types.Pointer)
			if !ok {
				return Val{}, fmt.Errorf("* on non-pointer")
			}
			return f.load(e.heap, v, pt.Elem()), nil
		}
	case *ECond:
		c, err := e.evalBool(n.C)
		if err != nil {
			return Val{}, err
		}
		a, err := e.eval(n.A)
		if err != nil {
			return Val{}, err
		}
		b, err := e.eval(n.B)
		if err != nil {
			return Val{}, err
		}
		a, b = coerce(a, b)
		return f.iteVal(c, a, b), nil
	case *EBinary:
		return e.evalBinary(n)
	case *ESel:
		return e.evalSel(n)
	case *EIndex:
		return e.evalIndex(n)
	case *ECall:
		return e.evalCall(n)
	case *EAssertT:
		v, err := e.eval(n.X)
		if err != nil {
			return Val{}, err
		}
		t, err := f.e.resolveType(e.pkg, n.T)
		if err != nil {
			return Val{}, err
		}
		_, payload := f.typeTest(v, t)
		return payload, nil
	case *EQuant:
		return e.evalQuant(n)
	}
	return Val{}, fmt.Errorf("cannot evaluate %T", x)
}

func coerce(a, b Val) (Val, Val) {
	// only integer literals are coerced implicitly (as in Go's untyped constants)
	lit := func(v Val) (float64, bool) {
		s := v.Tm
		neg := false
		if strings.HasPrefix(s, "(- ") {
			neg = true
			s = strings.TrimSuffix(s[3:], ")")
		}
		var n float64
		if _, err := fmt.Sscanf(s, "%g", &n); err != nil || strings.ContainsAny(s, "( !") {
			return 0, false
		}
		if neg {
			n = -n
		}
		return n, true
	}
	if a.K == KFloat && b.K == KInt {
		if n, ok := lit(b); ok {
			b = Val{K: KFloat, T: a.T, Tm: floatLit(n)}
		}
	} else if a.K == KInt && b.K == KFloat {
		if n, ok := lit(a); ok {
			a = Val{K: KFloat, T: b.T, Tm: floatLit(n)}
		}
	}
	return a, b
}

func (e *Env) evalBinary(n *EBinary) (Val, error) {
	f := e.f
	switch n.Op {
	case "&&", "||", "==>", "<==>":
		a, err := e.evalBool(n.X)
		if err != nil {
			return Val{}, err
		}
		b, err := e.evalBool(n.Y)
		if err != nil {
			return Val{}, err
		}
		switch n.Op {
		case "&&":
			return boolVal(and(a, b)), nil
		case "||":
			return boolVal(or(a, b)), nil
		case "==>":
			return boolVal(implies(a, b)), nil
		default:
			return boolVal(eq(a, b)), nil
		}
	case "in":
		k, err := e.eval(n.X)
		if err != nil {
			return Val{}, err
		}
		m, err := e.eval(n.Y)
		if err != nil {
			return Val{}, err
		}
		mt, ok := m.T.Underlying().(*types.Map)
		if !ok {
			return Val{}, fmt.Errorf("'in' needs a map on the right")
		}
		_, dk, _ := f.mapKeys(mt)
		if dk == "" {
			return Val{}, fmt.Errorf("'in': unsupported key type")
		}
		return boolVal(and(not(eq(m.Tm, "0")), app("select", app("select", f.hs.read(e.heap, dk), m.Tm), k.Tm))), nil
	}
	a, err := e.eval(n.X)
	if err != nil {
		return Val{}, err
	}
	b, err := e.eval(n.Y)
	if err != nil {
		return Val{}, err
	}
	a, b = coerce(a, b)
	switch n.Op {
	case "==":
		return boolVal(f.eqVal(a, b)), nil
	case "!=":
		return boolVal(not(f.eqVal(a, b))), nil
	}
	if a.K != b.K {
		return Val{}, fmt.Errorf("operands of %s have different kinds (%v, %v)", n.Op, a.K, b.K)
	}
	switch a.K {
	case KInt:
		switch n.Op {
		case "+", "-", "*":
			return Val{K: KInt, T: a.T, Tm: app(n.Op, a.Tm, b.Tm)}, nil
		case "/":
			return Val{K: KInt, T: a.T, Tm: ite(app(">=", a.Tm, "0"), app("div", a.Tm, b.Tm), app("-", app("div", app("-", a.Tm), b.Tm)))}, nil
		case "%":
			return Val{K: KInt, T: a.T, Tm: ite(app(">=", a.Tm, "0"), app("mod", a.Tm, b.Tm), app("-", app("mod", app("-", a.Tm), b.Tm)))}, nil
		case "<", "<=", ">", ">=":
			return boolVal(app(n.Op, a.Tm, b.Tm)), nil
		}
	case KFloat:
		ops := map[string]string{"+": "fp.add", "-": "fp.sub", "*": "fp.mul", "/": "fp.div"}
		cmps := map[string]string{"<": "fp.lt", "<=": "fp.leq", ">": "fp.gt", ">=": "fp.geq"}
		if o, ok := ops[n.Op]; ok {
			return Val{K: KFloat, T: a.T, Tm: app(o, "RNE", a.Tm, b.Tm)}, nil
		}
		if o, ok := cmps[n.Op]; ok {
			return boolVal(app(o, a.Tm, b.Tm)), nil
		}
	case KString:
		if n.Op == "+" {
			return Val{K: KString, T: a.T, Tm: app("str.++", a.Tm, b.Tm)}, nil
		}
	}
	return Val{}, fmt.Errorf("unsupported operator %s on %v", n.Op, a.K)
}

func fieldIndex(t types.Type, name string) (int, bool) {
	st, ok := t.Underlying().(*types.Struct)
	if !ok {
		return 0, false
	}
	for i := 0; i < st.NumFields(); i++ {
		if st.Field(i).Name() == name {
			return i, true
		}
	}
	if to, ok := aliasedField(t, name); ok {
		for i := 0; i < st.NumFields(); i++ {
			if st.Field(i).Name() == to {
				return i, true
			}
		}
	}
	return 0, false
}

func (e *Env) evalSel(n *ESel) (Val, error) {
	if id, ok := n.X.(*EIdent); ok {
		_, isVar := e.vars[id.Name]
		_, isBound := e.bound[id.Name]
		if !isVar && !isBound {
			if p := e.pkgByName(id.Name); p != nil {
				v, ok, err := e.lookupObj(p, n.Name)
				if err != nil {
					return Val{}, err
				}
				if ok {
					return v, nil
				}
				return Val{}, fmt.Errorf("%s.%s not found", id.Name, n.Name)
			}
		}
	}
	x, err := e.eval(n.X)
	if err != nil {
		return Val{}, err
	}
	return e.selectField(x, n.Name)
}

func (e *Env) selectField(x Val, name string) (Val, error) {
	f := e.f
	switch x.K {
	case KStruct:
		if i, ok := fieldIndex(x.T, name); ok {
			return x.Fs[i], nil
		}
		// promoted through embedded fields
		st := x.T.Underlying().(*types.Struct)
		for i := 0; i < st.NumFields(); i++ {
			if st.Field(i).Embedded() {
				if v, err := e.selectField(x.Fs[i], name); err == nil {
					return v, nil
				}
			}
		}
		return Val{}, fmt.Errorf("no field %s in %s", name, x.T)
	case KRef:
		pt, ok := x.T.Underlying().(*types.Pointer)
		if !ok {
			return Val{}, fmt.Errorf("selector .%s on non-pointer %s", name, x.T)
		}
		T := pt.Elem()
		i, ok := fieldIndex(T, name)
		if !ok {
			st, isS := T.Underlying().(*types.Struct)
			if isS {
				for j := 0; j < st.NumFields(); j++ {
					if st.Field(j).Embedded() {
						ft := st.Field(j).Type()
						var sub Val
						if kindOf(ft) == KStruct {
							sub = Val{K: KRef, T: types.NewPointer(ft), Tm: f.faddr(x.Tm, T, j)}
						} else {
							sub = Val{K: kindOf(ft), T: ft, Tm: app("select", f.hs.read(e.heap, f.fieldKey(x.Tm, T, j)), x.Tm)}
						}
						if v, err := e.selectField(sub, name); err == nil {
							return v, nil
						}
					}
				}
			}
			return Val{}, fmt.Errorf("no field %s in %s", name, T)
		}
		ft := T.Underlying().(*types.Struct).Field(i).Type()
		if kindOf(ft) == KStruct {
			return f.load(e.heap, Val{K: KRef, T: types.NewPointer(ft), Tm: f.faddr(x.Tm, T, i)}, ft), nil
		}
		key := f.fieldKey(x.Tm, T, i)
		return Val{K: kindOf(ft), T: ft, Tm: app("select", f.hs.read(e.heap, key), x.Tm)}, nil
	}
	return Val{}, fmt.Errorf("selector .%s on %v", name, x.K)
}

func (e *Env) evalIndex(n *EIndex) (Val, error) {
	f := e.f
	x, err := e.eval(n.X)
	if err != nil {
		return Val{}, err
	}
	i, err := e.eval(n.I)
	if err != nil {
		return Val{}, err
	}
	switch t := x.T.Underlying().(type) {
	case *types.Map:
		vk, dk, ok := f.mapKeys(t)
		if !ok {
			return Val{}, fmt.Errorf("map index: unsupported key/value type")
		}
		in := and(not(eq(x.Tm, "0")), app("select", app("select", f.hs.read(e.heap, dk), x.Tm), i.Tm))
		raw := app("select", app("select", f.hs.read(e.heap, vk), x.Tm), i.Tm)
		return Val{K: kindOf(t.Elem()), T: t.Elem(), Tm: ite(in, raw, f.zeroVal(t.Elem()).Tm)}, nil
	case *types.Slice:
		et := t.Elem()
		b, idx := f.sliceBase(x.Tm), app("+", f.sliceOff(x.Tm), i.Tm)
		if kindOf(et) == KStruct {
			return f.load(e.heap, Val{K: KRef, T: types.NewPointer(et), Tm: f.eaddr(b, idx, et)}, et), nil
		}
		key := f.elemKey(b, et)
		return Val{K: kindOf(et), T: et, Tm: app("select", app("select", f.hs.read(e.heap, key), b), idx)}, nil
	}
	return Val{}, fmt.Errorf("index on %s", x.T)
}

func (e *Env) applyPred(p *PredSpec, args []Val) (Val, error) {
	f := e.f
	if len(args) != len(p.Params) {
		return Val{}, fmt.Errorf("%s: expected %d arguments", p.Name, len(p.Params))
	}
	if e.depth > 40 {
		return Val{}, fmt.Errorf("%s: expansion too deep", p.Name)
	}
	if p.Rec {
		return e.applyRec(p, args)
	}
	vars := map[string]Val{}
	for i, pa := range p.Params {
		a := args[i]
		if pt, err := f.e.resolveType(p.Pkg, pa.T); err == nil {
			if a.K == KRef && a.Tm == "0" && kindOf(pt) == KAny {
				a = Val{K: KAny, T: pt, Tm: "any_nil"}
			}
			if a.T == nil || a.T == types.Typ[types.Int] || a.T == types.Typ[types.UntypedNil] {
				a.T = pt
			}
			if a.K == KInt && kindOf(pt) == KFloat {
				a, _ = coerce(a, Val{K: KFloat, T: pt})
			}
		}
		vars[pa.Name] = a
	}
	sub := &Env{f: f, pkg: p.Pkg, heap: e.heap, old: e.old, vars: vars, results: e.results, bound: map[string]Val{}, depth: e.depth + 1}
	v, err := sub.eval(p.Body)
	if err != nil {
		return Val{}, fmt.Errorf("in %s: %v", p.Name, err)
	}
	if p.Ret == nil && v.K != KBool {
		return Val{}, fmt.Errorf("pred %s is not boolean", p.Name)
	}
	return v, nil
}

// applyRec: recursive spec function -> define-fun-rec over scalar parameters.
// The body may read the heap; the definition is keyed by the body text, so two
// uses at heap versions that agree on everything the body reads share one
// definition, and uses at different versions get distinct functions.
func (e *Env) applyRec(p *PredSpec, args []Val) (Val, error) {
	f := e.f
	var rt types.Type = types.Typ[types.Bool]
	if p.Ret != nil {
		var err error
		rt, err = f.e.resolveType(p.Pkg, p.Ret)
		if err != nil {
			return Val{}, err
		}
	}
	var pn, ps []string
	vars := map[string]Val{}
	for _, pa := range p.Params {
		t, err := f.e.resolveType(p.Pkg, pa.T)
		if err != nil {
			return Val{}, err
		}
		if !isScalarKind(kindOf(t)) {
			return Val{}, fmt.Errorf("recursive spec function %s: non-scalar parameter %s", p.Name, pa.Name)
		}
		bn := "sfp." + pa.Name
		pn = append(pn, bn)
		ps = append(ps, sortOfType(t))
		vars[pa.Name] = Val{K: kindOf(t), T: t, Tm: bn}
	}
	placeholder := "sf." + p.Name + ".SELF"
	sub := &Env{f: f, pkg: p.Pkg, heap: e.heap, old: e.old, vars: vars, bound: map[string]Val{}, depth: e.depth + 1, noInst: true}
	sub.recName = p.Name
	sub.recSym = placeholder
	body, err := sub.eval(p.Body)
	if err != nil {
		return Val{}, fmt.Errorf("in %s: %v", p.Name, err)
	}
	name := fmt.Sprintf("sf.%s.%x", p.Name, hash32(body.Tm))
	if _, ok := f.c.syms[name]; !ok {
		f.c.defineFun(name, pn, ps, sortOfType(rt), strings.ReplaceAll(body.Tm, placeholder, name), true)
	}
	var ts []string
	for i, a := range args {
		if pt, err := f.e.resolveType(p.Pkg, p.Params[i].T); err == nil && a.K == KInt && kindOf(pt) == KFloat {
			a, _ = coerce(a, Val{K: KFloat, T: pt})
		}
		ts = append(ts, a.Tm)
	}
	return Val{K: kindOf(rt), T: rt, Tm: app(name, ts...)}, nil
}

func (e *Env) evalArgs(args []Expr) ([]Val, error) {
	var out []Val
	for _, a := range args {
		v, err := e.eval(a)
		if err != nil {
			return nil, err
		}
		out = append(out, v)
	}
	return out, nil
}

func (e *Env) evalCall(n *ECall) (Val, error) {
	f := e.f
	// method-style call x.M(args) or pkg.F(args)
	if sel, ok := n.Fn.(*ESel); ok {
		if id, ok := sel.X.(*EIdent); ok {
			_, isVar := e.vars[id.Name]
			_, isBound := e.bound[id.Name]
			if !isVar && !isBound {
				if p := e.pkgByName(id.Name); p != nil {
					sp := f.e.spkgs[p.Path()]
					if sp != nil {
						if fn := sp.Func(sel.Name); fn != nil {
							args, err := e.evalArgs(n.Args)
							if err != nil {
								return Val{}, err
							}
							return e.callGoFunc(fn.String(), fn.Signature, args)
						}
					}
					return Val{}, fmt.Errorf("function %s.%s not found", id.Name, sel.Name)
				}
			}
		}
		recv, err := e.eval(sel.X)
		if err != nil {
			return Val{}, err
		}
		args, err := e.evalArgs(n.Args)
		if err != nil {
			return Val{}, err
		}
		if recv.T == nil {
			return Val{}, fmt.Errorf("method call on untyped value")
		}
		obj, _, _ := types.LookupFieldOrMethod(recv.T, true, f.e.tpkgs[e.pkg], sel.Name)
		m, ok := obj.(*types.Func)
		if !ok {
			return Val{}, fmt.Errorf("method %s not found on %s", sel.Name, recv.T)
		}
		name := m.FullName()
		if _, isI := recv.T.Underlying().(*types.Interface); !isI {
			// concrete method: ssa function name
			ms := f.e.prog.MethodSets.MethodSet(recv.T)
			if s := ms.Lookup(m.Pkg(), sel.Name); s != nil {
				if fn := f.e.prog.MethodValue(s); fn != nil {
					name = fn.String()
				}
			}
		}
		return e.callGoFunc(name, m.Type().(*types.Signature), append([]Val{recv}, args...))
	}
	id, ok := n.Fn.(*EIdent)
	if !ok {
		return Val{}, fmt.Errorf("unsupported call form")
	}
	switch id.Name {
	case "istype":
		v, err := e.eval(n.Args[0])
		if err != nil {
			return Val{}, err
		}
		t, err := f.e.resolveType(e.pkg, n.TArgs[0])
		if err != nil {
			return Val{}, err
		}
		ok, _ := f.typeTest(v, t)
		return boolVal(ok), nil
	case "zero":
		t, err := f.e.resolveType(e.pkg, n.TArgs[0])
		if err != nil {
			return Val{}, err
		}
		return f.zeroVal(t), nil
	case "box":
		// box(T): the zero value of T as an interface value (context keys of struct type)
		t, err := f.e.resolveType(e.pkg, n.TArgs[0])
		if err != nil {
			return Val{}, err
		}
		return f.makeIface(&bstate{reach: "true", heap: e.heap, seg: f.newSeg()}, f.zeroVal(t), t), nil
	}
	if id.Name == "athead" && len(n.Args) == 1 {
		if e.headEnv == nil {
			return Val{}, fmt.Errorf("athead() is only meaningful in a loop step clause")
		}
		return e.headEnv.eval(n.Args[0])
	}
	if id.Name == "atlock" && len(n.Args) == 1 {
		// the value of an expression right after the function's (last) lock acquisition:
		// the reference point for postconditions over lock-guarded state, which other
		// goroutines may change until the lock is taken
		if e.atCallSite {
			return Val{}, errSkipClause // the callee's lock-time state is not visible to the caller
		}
		if f.lastLockHeap == nil {
			return Val{}, fmt.Errorf("atlock(): the function acquires no lock of a type with guarded fields")
		}
		o := e.with(f.lastLockHeap)
		if e.entryVars != nil {
			// parameters denote their entry values; locals (single-assignment values) stay visible
			nv := map[string]Val{}
			for k, v := range e.vars {
				nv[k] = v
			}
			for k, v := range e.entryVars {
				nv[k] = v
			}
			o.vars = nv
		}
		return o.eval(n.Args[0])
	}
	if id.Name == "held" && len(n.Args) == 1 {
		a, err := e.evalAddr(n.Args[0])
		if err != nil {
			return Val{}, err
		}
		return intVal(f.lockHeld(e.heap, a)), nil
	}
	args, err := e.evalArgs(n.Args)
	if err != nil {
		return Val{}, err
	}
	switch id.Name {
	case "len":
		a := args[0]
		switch t := a.T.Underlying().(type) {
		case *types.Basic:
			return intVal(app("str.len", a.Tm)), nil
		case *types.Slice:
			return intVal(f.sliceLen(a.Tm)), nil
		case *types.Map:
			_, dk, _ := f.mapKeys(t)
			if dk == "" {
				return Val{}, fmt.Errorf("len: unsupported map")
			}
			return intVal(ite(eq(a.Tm, "0"), "0", app(f.mapLenFn(t), app("select", f.hs.read(e.heap, dk), a.Tm)))), nil
		}
		return Val{}, fmt.Errorf("len of %s", a.T)
	case "chancap":
		// chancap(ch): the buffer size the channel was made with (ghost set at make)
		a := args[0]
		if _, ok := a.T.Underlying().(*types.Chan); !ok {
			return Val{}, fmt.Errorf("chancap of %s", a.T)
		}
		return intVal(f.ghostAt(e.heap, chanCapGhost(a.T), sortInt, a.Tm)), nil
	case "isNaN":
		return boolVal(app("fp.isNaN", args[0].Tm)), nil
	case "isInf":
		return boolVal(app("fp.isInfinite", args[0].Tm)), nil
	case "float64":
		a := args[0]
		if a.K == KFloat {
			return a, nil
		}
		return Val{K: KFloat, T: types.Typ[types.Float64], Tm: f.i2f(a.Tm)}, nil
	case "trunc":
		// mathematical truncation of a float toward zero (as an Int; unspecified on NaN/Inf)
		return intVal(f.f2i(args[0].Tm)), nil
	case "int", "int64":
		a := args[0]
		if a.K == KInt {
			// the conversion fixes the Go type (it matters when the value is boxed: asany(int64(x)))
			if id.Name == "int64" {
				a.T = types.Typ[types.Int64]
			} else {
				a.T = types.Typ[types.Int]
			}
			return a, nil
		}
		return Val{}, fmt.Errorf("int() of non-integer: use trunc")
	case "contains":
		return boolVal(app("str.contains", args[0].Tm, args[1].Tm)), nil
	case "hasPrefix":
		return boolVal(app("str.prefixof", args[1].Tm, args[0].Tm)), nil
	case "hasSuffix":
		return boolVal(app("str.suffixof", args[1].Tm, args[0].Tm)), nil
	case "itoa":
		return Val{K: KString, T: types.Typ[types.String], Tm: app("str.from_int", args[0].Tm)}, nil
	case "asany":
		a := args[0]
		if a.T == nil {
			return Val{}, fmt.Errorf("asany of an untyped value")
		}
		return f.makeIface(&bstate{reach: "true", heap: e.heap, seg: f.newSeg()}, a, a.T), nil
	case "isfresh":
		// allocated by this very call (not visible to anybody else before it returns)
		a := args[0]
		if a.K != KRef {
			return Val{}, fmt.Errorf("isfresh of a non-reference")
		}
		t := app("<", a.Tm, "0")
		if a.T != nil {
			if _, ok := a.T.Underlying().(*types.Slice); ok {
				t = and(t, app("<", f.sliceBase(a.Tm), "0"))
			}
		}
		return boolVal(t), nil
	case "isnil":
		a := args[0]
		if a.K == KAny {
			return boolVal(eq(a.Tm, "any_nil")), nil
		}
		return boolVal(eq(a.Tm, "0")), nil
	case "tag":
		return intVal(app("any_tag", args[0].Tm)), nil
	case "same":
		return boolVal(f.sameVal(args[0], args[1])), nil
	case "yielded":
		// yielded(k): number of keys the k-th map range statement of this function has yielded so far
		k := 0
		fmt.Sscanf(args[0].Tm, "%d", &k)
		key, ok := f.rangeKeys[k]
		if !ok {
			return Val{}, fmt.Errorf("yielded(%d): no such map range statement", k)
		}
		return intVal(f.hs.read(e.heap, key)), nil
	case "visited":
		// visited(n, k): has the n-th map range statement of this function yielded key k already?
		n := 0
		fmt.Sscanf(args[0].Tm, "%d", &n)
		key, ok := f.rangeVisKeys[n]
		if !ok {
			return Val{}, fmt.Errorf("visited(%d, k): no such map range statement", n)
		}
		return boolVal(app("select", f.hs.read(e.heap, key), args[1].Tm)), nil
	case "ranged":
		// ranged(n, k): was key k in the map when the n-th map range statement of this function started?
		n := 0
		fmt.Sscanf(args[0].Tm, "%d", &n)
		d0, ok := f.rangeDom0[n]
		if !ok {
			return Val{}, fmt.Errorf("ranged(%d, k): no such map range statement", n)
		}
		return boolVal(app("select", d0, args[1].Tm)), nil
	case "held":
		// held(mutexAddrExpr): lock mode of a mutex
		return intVal(f.lockHeld(e.heap, args[0].Tm)), nil
	case "closed":
		return boolVal(f.ghostAt(e.heap, chanClosedGhost(args[0].T), sortBool, args[0].Tm)), nil
	}
	if p, ok := f.e.specs.preds[id.Name]; ok {
		if e.recName == id.Name {
			var ts []string
			for _, a := range args {
				ts = append(ts, a.Tm)
			}
			rt := types.Type(types.Typ[types.Bool])
			if p.Ret != nil {
				rt, _ = f.e.resolveType(p.Pkg, p.Ret)
			}
			return Val{K: kindOf(rt), T: rt, Tm: app(e.recSym, ts...)}, nil
		}
		return e.applyPred(p, args)
	}
	if g, ok := f.e.specs.ghosts[id.Name]; ok && len(g.Params) == 2 && len(args) == 2 {
		key, t, err := f.ghost2Key(g)
		if err != nil {
			return Val{}, err
		}
		return Val{K: kindOf(t), T: t, Tm: app("select", app("select", f.hs.read(e.heap, key), args[0].Tm), args[1].Tm)}, nil
	}
	if g, ok := f.e.specs.ghosts[id.Name]; ok && len(g.Params) == 1 {
		t, err := f.e.resolveType(g.Pkg, g.T)
		if err != nil {
			return Val{}, err
		}
		it, err := f.e.resolveType(g.Pkg, g.Params[0].T)
		if err != nil {
			return Val{}, err
		}
		a := args[0]
		if kindOf(it) == KAny && a.K != KAny {
			return Val{}, fmt.Errorf("ghost %s expects an interface value", g.Name)
		}
		key := f.ghostKey(g.Name, sortOfType(t), true, sortOfType(it))
		return Val{K: kindOf(t), T: t, Tm: app("select", f.hs.read(e.heap, key), a.Tm)}, nil
	}
	if cs, ok := f.e.specs.csByKey[id.Name]; ok && cs.Func {
		t, err := f.e.resolveType(cs.Pkg, &TypeExpr{Kind: "name", Name: id.Name})
		if err != nil && len(args) > 0 && args[0].T != nil {
			// a callspec keyed by a field of function type: the signature is that of the function value given
			if _, isSig := args[0].T.Underlying().(*types.Signature); isSig {
				t, err = args[0].T, nil
			}
		}
		if err == nil {
			if sig, ok := t.Underlying().(*types.Signature); ok {
				var rt types.Type
				if sig.Results().Len() == 1 {
					rt = sig.Results().At(0).Type()
				} else {
					rt = sig.Results()
				}
				return f.pureApp("cs."+cs.Key, args, rt), nil
			}
		}
	}
	// Go function of the spec's package
	if sp := f.e.spkgs[e.pkg]; sp != nil {
		if fn := sp.Func(id.Name); fn != nil {
			return e.callGoFunc(fn.String(), fn.Signature, args)
		}
	}
	return Val{}, fmt.Errorf("unknown function %q", id.Name)
}

// callGoFunc: a Go function used in a spec must be declared `function`
// (deterministic, side-effect free); it denotes the uninterpreted function that
// call sites of the real function are bound to.
func (e *Env) callGoFunc(fullName string, sig *types.Signature, args []Val) (Val, error) {
	f := e.f
	spec := f.e.specs.funcs[fullName]
	if spec == nil || !spec.Func {
		return Val{}, fmt.Errorf("Go function %s used in a spec must have a contract declared 'function'", shortCallee(fullName))
	}
	var rt types.Type
	if sig.Results().Len() == 1 {
		rt = sig.Results().At(0).Type()
	} else {
		rt = sig.Results()
	}
	// nil literal arguments take the parameter's kind
	np := sig.Params().Len()
	off := len(args) - np
	for i := range args {
		if args[i].K == KRef && args[i].Tm == "0" && i-off >= 0 && i-off < np && kindOf(sig.Params().At(i-off).Type()) == KAny {
			args[i] = Val{K: KAny, T: sig.Params().At(i - off).Type(), Tm: "any_nil"}
		}
	}
	return f.pureApp(shortCallee(fullName), args, rt), nil
}

func (e *Env) evalQuant(n *EQuant) (Val, error) {
	f := e.f
	sub := *e
	sub.bound = map[string]Val{}
	for k, v := range e.bound {
		sub.bound[k] = v
	}
	var decls []string
	var ranges []string
	for _, p := range n.Vars {
		t, err := f.e.resolveType(e.pkg, p.T)
		if err != nil {
			return Val{}, err
		}
		f.qn++
		v := e.boundVal(fmt.Sprintf("q%d.%s", f.qn, p.Name), t, &decls)
		sub.bound[p.Name] = v
		if r := f.typeRangeTerm(v); r != "true" {
			ranges = append(ranges, r)
		}
	}
	body, err := sub.evalBool(n.Body)
	if err != nil {
		return Val{}, err
	}
	q := "forall"
	if n.Forall {
		body = implies(and(ranges...), body)
	} else {
		q = "exists"
		body = and(append(ranges, body)...)
	}
	quant := fmt.Sprintf("(%s (%s) %s)", q, strings.Join(decls, " "), body)
	// Ground instances at the index terms the function itself uses: logically
	// redundant (forall implies them, they imply exists) but they spare the
	// solver the arithmetic needed to find the instantiation.
	if len(n.Vars) == 1 && !e.noInst {
		if t, err := f.e.resolveType(e.pkg, n.Vars[0].T); err == nil && kindOf(t) == KInt {
			var insts []string
			seen := map[string]bool{}
			for i := len(f.indexTerms) - 1; i >= 0 && len(insts) < 6; i-- {
				w := f.indexTerms[i]
				if seen[w] {
					continue
				}
				seen[w] = true
				inst := *e
				inst.noInst = true
				inst.bound = map[string]Val{}
				for k, v := range e.bound {
					inst.bound[k] = v
				}
				wv := Val{K: KInt, T: t, Tm: w}
				inst.bound[n.Vars[0].Name] = wv
				b, err := inst.evalBool(n.Body)
				if err != nil {
					continue
				}
				r := f.typeRangeTerm(wv)
				if n.Forall {
					insts = append(insts, implies(r, b))
				} else {
					insts = append(insts, and(r, b))
				}
			}
			if len(insts) > 0 {
				if n.Forall {
					return boolVal(and(append(insts, quant)...)), nil
				}
				return boolVal(or(append(insts, quant)...)), nil
			}
		}
	}
	return boolVal(quant), nil
}

func (e *Env) boundVal(base string, t types.Type, decls *[]string) Val {
	k := kindOf(t)
	if k == KStruct {
		st := t.Underlying().(*types.Struct)
		v := Val{K: KStruct, T: t}
		for i := 0; i < st.NumFields(); i++ {
			v.Fs = append(v.Fs, e.boundVal(base+"."+st.Field(i).Name(), st.Field(i).Type(), decls))
		}
		return v
	}
	name := sanitize(base)
	*decls = append(*decls, fmt.Sprintf("(%s %s)", name, kindSort(k)))
	return Val{K: k, T: t, Tm: name}
}

// havocLocation implements one "modifies" item.
func (e *Env) havocLocation(h *Heap, x Expr) (*Heap, error) {
	f := e.f
	pointwise := func(key, obj string) *Heap {
		if f.dirtyKey == nil {
			f.dirtyKey = map[string]bool{}
		}
		f.dirtyKey[key] = true
		arr := f.hs.read(h, key)
		nv := f.c.freshConst("mod."+key, arrayElemSort(f.hs.sorts[key]))
		nh := f.hs.write(h, key, f.c.define("Hm."+key, f.hs.sorts[key], app("store", arr, obj, nv)))
		nh.obj = obj
		return nh
	}
	switch n := x.(type) {
	case *EIdent:
		if g, ok := f.e.specs.ghosts[n.Name]; ok {
			t, err := f.e.resolveType(g.Pkg, g.T)
			if err != nil {
				return nil, err
			}
			if len(g.Params) == 0 {
				key := f.ghostKey(g.Name, sortOfType(t), false, "")
				return f.hs.havocKeys(h, map[string]bool{key: true}), nil
			}
			if len(g.Params) == 2 {
				key, _, err := f.ghost2Key(g)
				if err != nil {
					return nil, err
				}
				return f.hs.havocKeys(h, map[string]bool{key: true}), nil
			}
			it, err := f.e.resolveType(g.Pkg, g.Params[0].T)
			if err != nil {
				return nil, err
			}
			key := f.ghostKey(g.Name, sortOfType(t), true, sortOfType(it))
			return f.hs.havocKeys(h, map[string]bool{key: true}), nil
		}
	case *ECall:
		if id, ok := n.Fn.(*EIdent); ok {
			if id.Name == "contents" && len(n.Args) == 1 {
				m, err := e.eval(n.Args[0])
				if err != nil {
					return nil, err
				}
				switch t := m.T.Underlying().(type) {
				case *types.Map:
					vk, dk, okv := f.mapKeys(t)
					if dk != "" {
						h = pointwise(dk, m.Tm)
					}
					if okv {
						h = pointwise(vk, m.Tm)
					}
					return h, nil
				case *types.Slice:
					if isScalarKind(kindOf(t.Elem())) {
						b := f.sliceBase(m.Tm)
						return pointwise(f.elemKey(b, t.Elem()), b), nil
					}
					return f.hs.havocAll(h), nil
				}
				return nil, fmt.Errorf("contents() of %s", m.T)
			}
			if id.Name == "held" && len(n.Args) == 1 {
				a, err := e.evalAddr(n.Args[0])
				if err != nil {
					return nil, err
				}
				key := f.ghostKey("lockheld", sortInt, true, sortInt)
				return pointwise(key, a), nil
			}
			if id.Name == "closed" && len(n.Args) == 1 {
				a, err := e.eval(n.Args[0])
				if err != nil {
					return nil, err
				}
				key := f.ghostKey(chanClosedGhost(a.T), sortBool, true, sortInt)
				return pointwise(key, a.Tm), nil
			}
			if g, ok := f.e.specs.ghosts[id.Name]; ok && len(g.Params) == 2 && len(n.Args) == 2 {
				a, err := e.eval(n.Args[0])
				if err != nil {
					return nil, err
				}
				b, err := e.eval(n.Args[1])
				if err != nil {
					return nil, err
				}
				key, _, err := f.ghost2Key(g)
				if err != nil {
					return nil, err
				}
				if f.dirtyKey == nil {
					f.dirtyKey = map[string]bool{}
				}
				f.dirtyKey[key] = true
				arr := f.hs.read(h, key)
				inner := arrayElemSort(f.hs.sorts[key])
				nv := f.c.freshConst("mod."+key, arrayElemSort(inner))
				nh := f.hs.write(h, key, f.c.define("Hm."+key, f.hs.sorts[key], app("store", arr, a.Tm, app("store", app("select", arr, a.Tm), b.Tm, nv))))
				nh.obj = a.Tm
				return nh, nil
			}
			if g, ok := f.e.specs.ghosts[id.Name]; ok && len(g.Params) == 1 && len(n.Args) == 1 {
				a, err := e.eval(n.Args[0])
				if err != nil {
					return nil, err
				}
				t, err := f.e.resolveType(g.Pkg, g.T)
				if err != nil {
					return nil, err
				}
				it, err := f.e.resolveType(g.Pkg, g.Params[0].T)
				if err != nil {
					return nil, err
				}
				key := f.ghostKey(g.Name, sortOfType(t), true, sortOfType(it))
				return pointwise(key, a.Tm), nil
			}
		}
	case *ESel:
		x, err := e.eval(n.X)
		if err != nil {
			return nil, err
		}
		pt, ok := x.T.Underlying().(*types.Pointer)
		if !ok {
			return nil, fmt.Errorf("modifies x.f needs a pointer x")
		}
		i, ok := fieldIndex(pt.Elem(), n.Name)
		if !ok {
			return nil, fmt.Errorf("no field %s", n.Name)
		}
		ft := pt.Elem().Underlying().(*types.Struct).Field(i).Type()
		if kindOf(ft) == KStruct {
			return f.store(h, Val{K: KRef, T: types.NewPointer(ft), Tm: f.faddr(x.Tm, pt.Elem(), i)}, ft, f.freshVal("mod", ft)), nil
		}
		return pointwise(f.fieldKey(x.Tm, pt.Elem(), i), x.Tm), nil
	case *EUnary:
		if n.Op == "*" {
			p, err := e.eval(n.X)
			if err != nil {
				return nil, err
			}
			pt, ok := p.T.Underlying().(*types.Pointer)
			if !ok {
				return nil, fmt.Errorf("modifies *p needs a pointer")
			}
			return f.store(h, p, pt.Elem(), f.freshVal("mod", pt.Elem())), nil
		}
	}
	return nil, fmt.Errorf("unsupported modifies item")
}

// evalAddr: the address denoted by a selector expression x.f (for locks embedded in structs).
func (e *Env) evalAddr(x Expr) (string, error) {
	if sel, ok := x.(*ESel); ok {
		base, err := e.eval(sel.X)
		if err != nil {
			return "", err
		}
		if base.T != nil {
			if pt, ok := base.T.Underlying().(*types.Pointer); ok && base.K == KRef {
				if i, ok := fieldIndex(pt.Elem(), sel.Name); ok {
					ft := pt.Elem().Underlying().(*types.Struct).Field(i).Type()
					if kindOf(ft) == KStruct {
						return e.f.faddr(base.Tm, pt.Elem(), i), nil
					}
				}
			}
		}
	}
	v, err := e.eval(x)
	if err != nil {
		return "", err
	}
	if v.K != KRef {
		return "", fmt.Errorf("expected a lock/pointer expression")
	}
	return v.Tm, nil
}

// ghost2Key registers a two-parameter ghost (nested arrays).
func (f *FnCtx) ghost2Key(g *GhostSpec) (string, types.Type, error) {
	t, err := f.e.resolveType(g.Pkg, g.T)
	if err != nil {
		return "", nil, err
	}
	t1, err := f.e.resolveType(g.Pkg, g.Params[0].T)
	if err != nil {
		return "", nil, err
	}
	t2, err := f.e.resolveType(g.Pkg, g.Params[1].T)
	if err != nil {
		return "", nil, err
	}
	key := "G." + g.Name
	if _, ok := f.hs.sorts[key]; !ok {
		f.hs.regKey(key, "(Array "+sortOfType(t1)+" (Array "+sortOfType(t2)+" "+sortOfType(t)+"))")
		if g.Stable {
			f.hs.final[key] = true
			f.hs.stable[key] = true
		}
	}
	return key, t, nil
}
