package main

// Contract language: file scanner, clause parser, expression parser.

import (
	"fmt"
	"os"
	"path/filepath"
	"sort"
	"strconv"
	"strings"
	"unicode"
)

// ---------------------------------------------------------------------------
// AST

type Expr interface{}

type (
	EIdent struct{ Name string }
	EInt   struct{ V string }
	EFloat struct{ V float64 }
	EStr   struct{ V string }
	EBool  struct{ V bool }
	ENil   struct{}
	EUnary struct {
		Op string
		X  Expr
	}
	EBinary struct {
		Op   string
		X, Y Expr
	}
	ECond struct{ C, A, B Expr }
	ESel  struct {
		X    Expr
		Name string
	}
	EIndex struct{ X, I Expr }
	ECall  struct {
		Fn    Expr
		Args  []Expr
		TArgs []*TypeExpr
	}
	EOld   struct{ X Expr }
	EQuant struct {
		Forall bool
		Vars   []Param
		Body   Expr
	}
	EAssertT struct {
		X Expr
		T *TypeExpr
	} // x.(T)
)

type TypeExpr struct {
	Kind string // name | ptr | slice | map | iface | func
	Pkg  string
	Name string
	Elem *TypeExpr
	Key  *TypeExpr
}

func (t *TypeExpr) String() string {
	switch t.Kind {
	case "name":
		if t.Pkg != "" {
			return t.Pkg + "." + t.Name
		}
		return t.Name
	case "ptr":
		return "*" + t.Elem.String()
	case "slice":
		return "[]" + t.Elem.String()
	case "map":
		return "map[" + t.Key.String() + "]" + t.Elem.String()
	case "iface":
		return "interface{}"
	}
	return "?"
}

type Param struct {
	Name string
	T    *TypeExpr
}

type Clause struct {
	Kind string // requires | ensures | invariant | assert | decreases
	Tags []string
	Name string // optional label (becomes part of the obligation name)
	E    Expr
	Src  string
	Line string // file:line
	used bool
}

type LoopSpec struct {
	Ordinal    int
	Invariants []*Clause
	Decreases  *Clause
	Increases  []*Clause // expressions that must be strictly larger on every back edge than at the header
	Steps      []*Clause // step clauses: hold at every back edge; athead(e) is e as it was at the loop head of that iteration
}

type CallAssert struct {
	Callee  string
	Ordinal int
	C       *Clause
}

type FuncSpec struct {
	Pkg            string // package path of the spec file ("" for extern files)
	Key            string // as written: Recv.Name / Name / full name
	Extern         bool
	IsCallSpec     bool
	Requires       []*Clause
	Ensures        []*Clause
	Modifies       []Expr
	ModAll         bool // "modifies *"
	HasMod         bool
	Pure           bool
	Func           bool // deterministic function of its arguments (implies Pure)
	Inline         bool
	Trusted        bool
	TrustedTags    []string // trusted[TAGS]: trusted only while one of these properties is being checked
	Ghosts         []Param
	CallSpecs      map[string]*FuncSpec
	Loops          map[int]*LoopSpec
	Before         []*CallAssert
	Sweep          []string // sweep kinds requested: typeassert, close, nilmap, index, lock
	SweepTags      []string
	Params         []string // for extern / callspec: parameter names in order (optional)
	Line           string
	Used           bool
	Fresh          bool // result is a freshly allocated reference
	RiskyFrame     bool // frame completed implicitly, or no modifies clause at all: calls get a satisfiability cover in every tier
	Holds          []HoldDecl
	CallersNeed    []string    // properties under which every module function calling this one must itself be under contract
	CallersChecked []string    // properties under which every module function calling this one is checked (so that its tagged requires are obligations at every call)
	Waive          []string    // obligations of this function whose name contains one of these labels are not generated (documented gaps)
	NoSweep        []string    // sweep kinds not generated for this function (reason goes to DESIGN.md / evidence)
	Records        [][2]string // (ghost, parameter or retN): the engine stores that value in the ghost at every call
	Counted        []string    // ghost counters bumped by the engine at every call of this function
	CountedWhen    []CountWhen // counted g when <expr over the results>: bumped at the calls whose outcome satisfies expr
	Helper         bool        // internal helper: type invariants are neither assumed nor checked at its boundary
}

type CountWhen struct {
	Ghost string
	E     Expr
	Src   string
}

type LockInv struct {
	Lock string
	C    *Clause
}

type TypeSpec struct {
	Pkg        string
	Name       string
	Guarded    []GuardDecl
	Final      []string
	FinalTags  []string
	FinalDecls []FinalDecl
	Frozen     []FinalDecl // frozen[TAGS] except a, b: every field of the struct (also ones added later) is final, except the listed ones
	LockInvs   []LockInv   // monitor invariants: assumed after acquiring the lock, checked before releasing it
	Wire       []WireDecl  // wire[TAGS] Field as name, ...: the field is always encoded under exactly that JSON member name
	Transient  []FinalDecl // map fields: an entry a function inserts is gone again when that function returns
	Inits      []string    // functions that run before the object is shared: exempt from final/guarded checks, no establishment obligation
	Owns       []string    // channel fields whose closed-state only the private writers change
	Private    []PrivateDecl
	Atomic     []string
	Confined   []string
	HB         []string
	Invs       []*Clause
	Ctors      []string
	Line       string
}

type WireDecl struct {
	Pairs [][2]string // field, member name
	Tags  []string
	Line  string
}

type FinalDecl struct {
	Fields []string
	Tags   []string
	Except []string // transient: functions whose job is to insert (checked at their callers)
}

type HoldDecl struct {
	Mode int // 1 read, 2 write
	E    Expr
	Src  string
}

type PrivateDecl struct {
	Fields  []string
	Writers []string
	Tags    []string
}

type GuardDecl struct {
	Fields []string
	Lock   string
	Tags   []string
}

type PredSpec struct {
	Pkg    string
	Name   string
	Params []Param
	Ret    *TypeExpr // nil for pred (Bool)
	Body   Expr
	Rec    bool
	Line   string
	Src    string
}

type GhostSpec struct {
	Stable   bool // changed only through explicit modifies clauses, never by calls to unknown code
	Monotone bool // never decreases (Int) / never becomes false again (Bool): survives calls to unknown code as such
	Pkg      string
	Name     string
	Params   []Param // empty => scalar global
	T        *TypeExpr
	Line     string
}

type LemmaSpec struct {
	Pkg  string
	Name string
	Tags []string
	E    Expr
	Src  string
	Line string
}

type SweepScope struct {
	Tags   []string
	Kinds  []string
	Files  []string
	Except []string
	Line   string
}

type SpecFile struct {
	Scopes []*SweepScope
	Path   string
	Pkg    string
	Funcs  []*FuncSpec
	Types  []*TypeSpec
	Preds  []*PredSpec
	Ghosts []*GhostSpec
	Lemmas []*LemmaSpec
}

// ---------------------------------------------------------------------------
// lexer

type tok struct {
	k string // id, int, float, str, op, eof
	s string
}

type lexer struct {
	toks []tok
	pos  int
	src  string
}

func lex(src string) ([]tok, error) {
	var out []tok
	rs := []rune(src)
	i := 0
	for i < len(rs) {
		r := rs[i]
		switch {
		case unicode.IsSpace(r):
			i++
		case r == '$' && i+1 < len(rs) && (unicode.IsLetter(rs[i+1]) || rs[i+1] == '_'):
			// $name: a source identifier that collides with a keyword of the contract language
			j := i + 1
			for j < len(rs) && (unicode.IsLetter(rs[j]) || unicode.IsDigit(rs[j]) || rs[j] == '_') {
				j++
			}
			out = append(out, tok{"qid", string(rs[i+1 : j])})
			i = j
		case unicode.IsLetter(r) || r == '_':
			j := i
			for j < len(rs) && (unicode.IsLetter(rs[j]) || unicode.IsDigit(rs[j]) || rs[j] == '_') {
				j++
			}
			out = append(out, tok{"id", string(rs[i:j])})
			i = j
		case unicode.IsDigit(r):
			j := i
			isF := false
			for j < len(rs) && (unicode.IsDigit(rs[j]) || rs[j] == '.' || rs[j] == 'e' || rs[j] == '_' ||
				((rs[j] == '+' || rs[j] == '-') && j > i && rs[j-1] == 'e')) {
				if rs[j] == '.' || rs[j] == 'e' {
					// "1..": not float
					if rs[j] == '.' && j+1 < len(rs) && !unicode.IsDigit(rs[j+1]) {
						break
					}
					isF = true
				}
				j++
			}
			s := strings.ReplaceAll(string(rs[i:j]), "_", "")
			if isF {
				out = append(out, tok{"float", s})
			} else {
				out = append(out, tok{"int", s})
			}
			i = j
		case r == '"':
			j := i + 1
			for j < len(rs) && rs[j] != '"' {
				if rs[j] == '\\' {
					j++
				}
				j++
			}
			if j >= len(rs) {
				return nil, fmt.Errorf("unterminated string")
			}
			s, err := strconv.Unquote(string(rs[i : j+1]))
			if err != nil {
				return nil, err
			}
			out = append(out, tok{"str", s})
			i = j + 1
		default:
			three := ""
			if i+3 <= len(rs) {
				three = string(rs[i : i+3])
			}
			four := ""
			if i+4 <= len(rs) {
				four = string(rs[i : i+4])
			}
			two := ""
			if i+2 <= len(rs) {
				two = string(rs[i : i+2])
			}
			switch {
			case four == "<==>":
				out = append(out, tok{"op", four})
				i += 4
			case three == "==>":
				out = append(out, tok{"op", three})
				i += 3
			case two == "==" || two == "!=" || two == "<=" || two == ">=" || two == "&&" || two == "||" || two == "::" || two == ".(":
				out = append(out, tok{"op", two})
				i += 2
			default:
				out = append(out, tok{"op", string(r)})
				i++
			}
		}
	}
	out = append(out, tok{"eof", ""})
	return out, nil
}

type parser struct {
	toks []tok
	p    int
}

func (p *parser) peek() tok { return p.toks[p.p] }
func (p *parser) next() tok { t := p.toks[p.p]; p.p++; return t }
func (p *parser) isOp(s string) bool {
	t := p.peek()
	return t.k == "op" && t.s == s
}
func (p *parser) isID(s string) bool {
	t := p.peek()
	return t.k == "id" && t.s == s
}
func (p *parser) accept(s string) bool {
	if p.isOp(s) {
		p.p++
		return true
	}
	return false
}
func (p *parser) expect(s string) {
	if !p.accept(s) {
		panic(fmt.Errorf("expected %q, got %q", s, p.peek().s))
	}
}
func (p *parser) ident() string {
	t := p.next()
	if t.k != "id" {
		panic(fmt.Errorf("expected identifier, got %q", t.s))
	}
	return t.s
}

func (p *parser) parseType() *TypeExpr {
	switch {
	case p.accept("*"):
		return &TypeExpr{Kind: "ptr", Elem: p.parseType()}
	case p.accept("["):
		p.expect("]")
		return &TypeExpr{Kind: "slice", Elem: p.parseType()}
	case p.isID("map"):
		p.next()
		p.expect("[")
		k := p.parseType()
		p.expect("]")
		return &TypeExpr{Kind: "map", Key: k, Elem: p.parseType()}
	case p.isID("interface"):
		p.next()
		p.expect("{")
		p.expect("}")
		return &TypeExpr{Kind: "iface"}
	}
	n := p.ident()
	if p.isOp(".") && p.toks[p.p+1].k == "id" {
		p.next()
		return &TypeExpr{Kind: "name", Pkg: n, Name: p.ident()}
	}
	return &TypeExpr{Kind: "name", Name: n}
}

func (p *parser) parseParams() []Param {
	var ps []Param
	p.expect("(")
	for !p.isOp(")") {
		n := p.ident()
		t := p.parseType()
		ps = append(ps, Param{n, t})
		if !p.accept(",") {
			break
		}
	}
	p.expect(")")
	return ps
}

func (p *parser) parseExpr() Expr {
	if p.isID("forall") || p.isID("exists") {
		fa := p.next().s == "forall"
		var vars []Param
		for {
			n := p.ident()
			t := p.parseType()
			vars = append(vars, Param{n, t})
			if !p.accept(",") {
				break
			}
		}
		p.expect("::")
		return &EQuant{fa, vars, p.parseExpr()}
	}
	e := p.parseImpl()
	if p.accept("?") {
		a := p.parseExpr()
		p.expect(":")
		b := p.parseExpr()
		return &ECond{e, a, b}
	}
	return e
}

func (p *parser) parseImpl() Expr {
	l := p.parseOr()
	if p.accept("==>") {
		r := p.parseImplRHS()
		return &EBinary{"==>", l, r}
	}
	if p.accept("<==>") {
		r := p.parseOr()
		return &EBinary{"<==>", l, r}
	}
	return l
}

func (p *parser) parseImplRHS() Expr {
	if p.isID("forall") || p.isID("exists") {
		return p.parseExpr()
	}
	return p.parseImpl()
}

func (p *parser) parseOr() Expr {
	l := p.parseAnd()
	for p.accept("||") {
		l = &EBinary{"||", l, p.parseAnd()}
	}
	return l
}

func (p *parser) parseAnd() Expr {
	l := p.parseCmp()
	for p.accept("&&") {
		l = &EBinary{"&&", l, p.parseCmp()}
	}
	return l
}

func (p *parser) parseCmp() Expr {
	l := p.parseAdd()
	for _, op := range []string{"==", "!=", "<=", ">=", "<", ">"} {
		if p.accept(op) {
			return &EBinary{op, l, p.parseAdd()}
		}
	}
	if p.isID("in") {
		p.next()
		return &EBinary{"in", l, p.parseAdd()}
	}
	return l
}

func (p *parser) parseAdd() Expr {
	l := p.parseMul()
	for {
		switch {
		case p.accept("+"):
			l = &EBinary{"+", l, p.parseMul()}
		case p.accept("-"):
			l = &EBinary{"-", l, p.parseMul()}
		default:
			return l
		}
	}
}

func (p *parser) parseMul() Expr {
	l := p.parseUnary()
	for {
		switch {
		case p.accept("*"):
			l = &EBinary{"*", l, p.parseUnary()}
		case p.accept("/"):
			l = &EBinary{"/", l, p.parseUnary()}
		case p.accept("%"):
			l = &EBinary{"%", l, p.parseUnary()}
		default:
			return l
		}
	}
}

func (p *parser) parseUnary() Expr {
	switch {
	case p.accept("!"):
		return &EUnary{"!", p.parseUnary()}
	case p.accept("-"):
		return &EUnary{"-", p.parseUnary()}
	case p.accept("*"):
		return &EUnary{"*", p.parseUnary()}
	}
	return p.parsePostfix()
}

// names of special forms whose arguments include types
var typeArgForms = map[string][]int{"istype": {1}, "zero": {0}, "tagof": {0}, "box": {0}}

func (p *parser) parsePostfix() Expr {
	e := p.parsePrimary()
	for {
		switch {
		case p.isOp(".") && p.toks[p.p+1].k == "id":
			p.next()
			e = &ESel{e, p.ident()}
		case p.accept(".("):
			t := p.parseType()
			p.expect(")")
			e = &EAssertT{e, t}
		case p.accept("["):
			i := p.parseExpr()
			p.expect("]")
			e = &EIndex{e, i}
		case p.accept("("):
			call := &ECall{Fn: e}
			tpos := []int(nil)
			if id, ok := e.(*EIdent); ok {
				tpos = typeArgForms[id.Name]
			}
			k := 0
			for !p.isOp(")") {
				isT := false
				for _, tp := range tpos {
					if tp == k {
						isT = true
					}
				}
				if isT {
					call.TArgs = append(call.TArgs, p.parseType())
				} else {
					call.Args = append(call.Args, p.parseExpr())
				}
				k++
				if !p.accept(",") {
					break
				}
			}
			p.expect(")")
			e = call
		default:
			return e
		}
	}
}

func (p *parser) parsePrimary() Expr {
	t := p.next()
	switch t.k {
	case "int":
		return &EInt{t.s}
	case "float":
		f, err := strconv.ParseFloat(t.s, 64)
		if err != nil {
			panic(err)
		}
		return &EFloat{f}
	case "str":
		return &EStr{t.s}
	case "qid":
		return &EIdent{t.s}
	case "id":
		switch t.s {
		case "true":
			return &EBool{true}
		case "false":
			return &EBool{false}
		case "nil":
			return &ENil{}
		case "old":
			p.expect("(")
			e := p.parseExpr()
			p.expect(")")
			return &EOld{e}
		}
		return &EIdent{t.s}
	case "op":
		if t.s == "(" {
			e := p.parseExpr()
			p.expect(")")
			return e
		}
	}
	panic(fmt.Errorf("unexpected token %q", t.s))
}

func parseExprString(s string) (e Expr, err error) {
	defer func() {
		if r := recover(); r != nil {
			err = fmt.Errorf("%v in %q", r, s)
		}
	}()
	toks, err := lex(s)
	if err != nil {
		return nil, err
	}
	p := &parser{toks: toks}
	e = p.parseExpr()
	if p.peek().k != "eof" {
		return nil, fmt.Errorf("trailing input %q in %q", p.peek().s, s)
	}
	return e, nil
}

// ---------------------------------------------------------------------------
// file scanner

var clauseKeywords = map[string]bool{
	"pred": true, "fun": true, "lemma": true, "ghost": true, "func": true, "extern": true, "type": true,
	"callspec": true, "requires": true, "ensures": true, "modifies": true, "pure": true, "function": true, "inline": true,
	"trusted": true, "loop": true, "before": true, "sweep": true, "guarded": true, "final": true, "atomic": true,
	"confined": true, "frozen": true, "transient": true, "lockinv": true, "private": true, "owns": true, "init": true, "holds": true, "helper": true, "counted": true, "records": true, "sweepscope": true, "nosweep": true, "waive": true, "callers-need-contract": true, "callers-checked": true, "hb-by-channel": true, "invariant": true, "ctor": true, "params": true, "fresh": true, "wire": true, "end": true,
}

type rawClause struct {
	text string
	line string
}

func scanSpecFile(path string) (pkg string, clauses []rawClause, err error) {
	data, err := os.ReadFile(path)
	if err != nil {
		return "", nil, err
	}
	lines := strings.Split(string(data), "\n")
	var cur *rawClause
	flush := func() {
		if cur != nil {
			clauses = append(clauses, *cur)
			cur = nil
		}
	}
	for i, ln := range lines {
		t := strings.TrimSpace(ln)
		if strings.HasPrefix(t, "package ") {
			pkg = strings.TrimSpace(strings.TrimPrefix(t, "package "))
			continue
		}
		if !strings.HasPrefix(t, "//@") {
			continue
		}
		body := strings.TrimSpace(strings.TrimPrefix(t, "//@"))
		// strip trailing comment "  // ..."
		if k := strings.Index(body, " // "); k >= 0 && !strings.Contains(body[k:], `"`) {
			body = strings.TrimSpace(body[:k])
		}
		if body == "" {
			flush()
			clauses = append(clauses, rawClause{text: "end-block", line: fmt.Sprintf("%s:%d", filepath.Base(path), i+1)})
			continue
		}
		first := body
		if k := strings.IndexAny(first, " \t[("); k >= 0 {
			first = first[:k]
		}
		if clauseKeywords[first] {
			flush()
			cur = &rawClause{text: body, line: fmt.Sprintf("%s:%d", filepath.Base(path), i+1)}
		} else if cur != nil {
			cur.text += " " + body
		} else {
			return pkg, nil, fmt.Errorf("%s:%d: continuation without clause: %s", path, i+1, body)
		}
	}
	flush()
	return pkg, clauses, nil
}

// parseTags parses an optional "[C01,C02]" or "[C01,C02 name]" prefix; returns tags, label, rest.
func parseTags(s string) ([]string, string, string) {
	s = strings.TrimSpace(s)
	if !strings.HasPrefix(s, "[") {
		return nil, "", s
	}
	k := strings.Index(s, "]")
	inner := s[1:k]
	rest := strings.TrimSpace(s[k+1:])
	label := ""
	if sp := strings.IndexAny(inner, " "); sp >= 0 {
		label = strings.TrimSpace(inner[sp+1:])
		inner = inner[:sp]
	}
	var tags []string
	for _, t := range strings.Split(inner, ",") {
		t = strings.TrimSpace(t)
		if t != "" {
			tags = append(tags, t)
		}
	}
	return tags, label, rest
}

func mkClause(kind, rest, line string) (*Clause, error) {
	tags, label, body := parseTags(rest)
	e, err := parseExprString(body)
	if err != nil {
		return nil, fmt.Errorf("%s: %v", line, err)
	}
	return &Clause{Kind: kind, Tags: tags, Name: label, E: e, Src: body, Line: line}, nil
}

func splitFirst(s string) (string, string) {
	s = strings.TrimSpace(s)
	k := strings.IndexAny(s, " \t")
	if k < 0 {
		return s, ""
	}
	return s[:k], strings.TrimSpace(s[k+1:])
}

func parseSpecFile(path string, pkgPath string) (*SpecFile, error) {
	_, raws, err := scanSpecFile(path)
	if err != nil {
		return nil, err
	}
	sf := &SpecFile{Path: path, Pkg: pkgPath}
	var curF *FuncSpec
	var curCS *FuncSpec // callspec nested in curF or toplevel
	var curT *TypeSpec
	target := func() *FuncSpec {
		if curCS != nil {
			return curCS
		}
		return curF
	}
	for _, rc := range raws {
		kw, rest := splitFirst(rc.text)
		// keyword may be glued to a tag: requires[C01] ...
		if k := strings.Index(kw, "["); k >= 0 {
			rest = kw[k:] + " " + rest
			kw = kw[:k]
		}
		fail := func(e error) (*SpecFile, error) { return nil, fmt.Errorf("%s: %v", rc.line, e) }
		switch kw {
		case "end-block":
			curF, curCS, curT = nil, nil, nil
		case "end":
			curCS = nil
		case "sweepscope":
			curF, curCS, curT = nil, nil, nil
			tags, _, body := parseTags(rest)
			sc := &SweepScope{Tags: tags, Line: rc.line}
			for _, part := range strings.Fields(body) {
				kv := strings.SplitN(part, "=", 2)
				if len(kv) != 2 {
					return fail(fmt.Errorf("sweepscope: expected key=value, got %q", part))
				}
				switch kv[0] {
				case "kinds":
					sc.Kinds = splitNames(kv[1])
				case "files":
					sc.Files = splitNames(kv[1])
				case "except":
					sc.Except = splitNames(kv[1])
				default:
					return fail(fmt.Errorf("sweepscope: unknown key %q", kv[0]))
				}
			}
			sf.Scopes = append(sf.Scopes, sc)
		case "pred", "fun":
			curF, curCS, curT = nil, nil, nil
			toks, err := lex(rest)
			if err != nil {
				return fail(err)
			}
			p := &parser{toks: toks}
			ps := &PredSpec{Pkg: pkgPath, Line: rc.line, Src: rest}
			perr := func() (err error) {
				defer func() {
					if r := recover(); r != nil {
						err = fmt.Errorf("%v", r)
					}
				}()
				ps.Name = p.ident()
				ps.Params = p.parseParams()
				if kw == "fun" {
					ps.Ret = p.parseType()
				}
				p.expect("=")
				ps.Body = p.parseExpr()
				if p.peek().k != "eof" {
					return fmt.Errorf("trailing %q", p.peek().s)
				}
				return nil
			}()
			if perr != nil {
				return fail(perr)
			}
			ps.Rec = exprMentionsCall(ps.Body, ps.Name)
			sf.Preds = append(sf.Preds, ps)
		case "lemma":
			curF, curCS, curT = nil, nil, nil
			tags, _, body := parseTags(rest)
			k := strings.Index(body, ":")
			if k < 0 {
				return fail(fmt.Errorf("lemma needs name:"))
			}
			name := strings.TrimSpace(body[:k])
			e, err := parseExprString(body[k+1:])
			if err != nil {
				return fail(err)
			}
			sf.Lemmas = append(sf.Lemmas, &LemmaSpec{Pkg: pkgPath, Name: name, Tags: tags, E: e, Src: strings.TrimSpace(body[k+1:]), Line: rc.line})
		case "ghost":
			toks, err := lex(rest)
			if err != nil {
				return fail(err)
			}
			p := &parser{toks: toks}
			g := &GhostSpec{Pkg: pkgPath, Line: rc.line}
			perr := func() (err error) {
				defer func() {
					if r := recover(); r != nil {
						err = fmt.Errorf("%v", r)
					}
				}()
				g.Name = p.ident()
				if g.Name == "monotone" {
					g.Monotone = true
					g.Name = p.ident()
				}
				if g.Name == "stable" {
					g.Stable = true
					g.Name = p.ident()
				}
				if p.isOp("(") {
					g.Params = p.parseParams()
				}
				g.T = p.parseType()
				return nil
			}()
			if perr != nil {
				return fail(perr)
			}
			sf.Ghosts = append(sf.Ghosts, g)
		case "func", "extern":
			curCS, curT = nil, nil
			curF = &FuncSpec{Pkg: pkgPath, Key: strings.TrimSpace(rest), Extern: kw == "extern", CallSpecs: map[string]*FuncSpec{}, Loops: map[int]*LoopSpec{}, Line: rc.line}
			sf.Funcs = append(sf.Funcs, curF)
		case "callspec":
			cs := &FuncSpec{Pkg: pkgPath, Key: strings.TrimSpace(rest), IsCallSpec: true, CallSpecs: map[string]*FuncSpec{}, Loops: map[int]*LoopSpec{}, Line: rc.line}
			if curF != nil {
				curF.CallSpecs[cs.Key] = cs
			} else {
				sf.Funcs = append(sf.Funcs, cs)
			}
			curCS = cs
		case "type":
			curF, curCS = nil, nil
			curT = &TypeSpec{Pkg: pkgPath, Name: strings.TrimSpace(rest), Line: rc.line}
			sf.Types = append(sf.Types, curT)
		case "params":
			f := target()
			if f == nil {
				return fail(fmt.Errorf("params outside func"))
			}
			for _, n := range strings.Split(rest, ",") {
				f.Params = append(f.Params, strings.TrimSpace(n))
			}
		case "requires", "ensures":
			f := target()
			if f == nil {
				return fail(fmt.Errorf("%s outside func", kw))
			}
			c, err := mkClause(kw, rest, rc.line)
			if err != nil {
				return nil, err
			}
			if kw == "requires" {
				f.Requires = append(f.Requires, c)
			} else {
				f.Ensures = append(f.Ensures, c)
			}
		case "modifies":
			f := target()
			if f == nil {
				return fail(fmt.Errorf("modifies outside func"))
			}
			f.HasMod = true
			if strings.TrimSpace(rest) == "*" {
				f.ModAll = true
				break
			}
			if strings.HasPrefix(strings.TrimSpace(rest), "*") {
				// "modifies *, g(x), h": everything, and in addition the listed stable ghosts
				f.ModAll = true
				rest = strings.TrimLeft(strings.TrimPrefix(strings.TrimSpace(rest), "*"), ", ")
			}
			if strings.TrimSpace(rest) == "nothing" {
				break
			}
			for _, part := range splitTopLevel(rest, ',') {
				e, err := parseExprString(part)
				if err != nil {
					return fail(err)
				}
				f.Modifies = append(f.Modifies, e)
			}
		case "pure":
			if f := target(); f != nil {
				f.Pure = true
				f.HasMod = true
			}
		case "function":
			if f := target(); f != nil {
				f.Pure = true
				f.Func = true
				f.HasMod = true
			}
		case "fresh":
			if f := target(); f != nil {
				f.Fresh = true
			}
		case "callers-need-contract":
			if curF != nil {
				curF.CallersNeed = append(curF.CallersNeed, splitNames(rest)...)
			}
		case "callers-checked":
			if curF != nil {
				curF.CallersChecked = append(curF.CallersChecked, splitNames(rest)...)
			}
		case "waive":
			if curF != nil {
				curF.Waive = append(curF.Waive, splitNames(rest)...)
			}
		case "nosweep":
			if curF != nil {
				curF.NoSweep = append(curF.NoSweep, splitNames(rest)...)
			}
		case "records":
			// records <ghost> <param|retN>
			if f := target(); f != nil {
				g, v := splitFirst(rest)
				f.Records = append(f.Records, [2]string{g, strings.TrimSpace(v)})
			}
		case "counted":
			if f := target(); f != nil {
				if k := strings.Index(rest, " when "); k > 0 {
					e, err := parseExprString(strings.TrimSpace(rest[k+6:]))
					if err != nil {
						return fail(err)
					}
					f.CountedWhen = append(f.CountedWhen, CountWhen{Ghost: strings.TrimSpace(rest[:k]), E: e, Src: rest})
				} else {
					f.Counted = append(f.Counted, splitNames(rest)...)
				}
			}
		case "helper":
			if curF != nil {
				curF.Helper = true
			}
		case "holds":
			f := target()
			if f == nil {
				return fail(fmt.Errorf("holds outside func"))
			}
			mode, r2 := splitFirst(rest)
			md := 0
			switch mode {
			case "read":
				md = 1
			case "write":
				md = 2
			default:
				return fail(fmt.Errorf("holds read|write <lock>"))
			}
			e, err := parseExprString(r2)
			if err != nil {
				return fail(err)
			}
			f.Holds = append(f.Holds, HoldDecl{Mode: md, E: e, Src: r2})
		case "inline":
			if curF != nil {
				curF.Inline = true
			}
		case "trusted":
			if curF != nil {
				if tags, _, _ := parseTags(rest); len(tags) > 0 {
					curF.TrustedTags = append(curF.TrustedTags, tags...)
				} else {
					curF.Trusted = true
				}
			}
		case "sweep":
			if curF == nil {
				return fail(fmt.Errorf("sweep outside func"))
			}
			tags, _, body := parseTags(rest)
			curF.SweepTags = append(curF.SweepTags, tags...)
			for _, k := range strings.Split(body, ",") {
				if k = strings.TrimSpace(k); k != "" {
					curF.Sweep = append(curF.Sweep, k)
				}
			}
		case "loop":
			if curF == nil {
				return fail(fmt.Errorf("loop outside func"))
			}
			ns, r2 := splitFirst(rest)
			n, err := strconv.Atoi(ns)
			if err != nil {
				return fail(err)
			}
			k2, r3 := splitFirst(r2)
			if k := strings.Index(k2, "["); k >= 0 {
				r3 = k2[k:] + " " + r3
				k2 = k2[:k]
			}
			ls := curF.Loops[n]
			if ls == nil {
				ls = &LoopSpec{Ordinal: n}
				curF.Loops[n] = ls
			}
			c, err := mkClause(k2, r3, rc.line)
			if err != nil {
				return nil, err
			}
			if k2 == "invariant" {
				ls.Invariants = append(ls.Invariants, c)
			} else if k2 == "increases" {
				ls.Increases = append(ls.Increases, c)
			} else if k2 == "step" {
				ls.Steps = append(ls.Steps, c)
			} else if k2 == "decreases" {
				ls.Decreases = c
			} else {
				return fail(fmt.Errorf("loop %s?", k2))
			}
		case "before":
			// before call NAME#n assert[TAGS] expr
			if curF == nil {
				return fail(fmt.Errorf("before outside func"))
			}
			w, r2 := splitFirst(rest)
			if w != "call" {
				return fail(fmt.Errorf("before call ..."))
			}
			callee, r3 := splitFirst(r2)
			ord := 1
			if k := strings.LastIndex(callee, "#"); k >= 0 {
				ord, _ = strconv.Atoi(callee[k+1:])
				callee = callee[:k]
			}
			k3, r4 := splitFirst(r3)
			if k := strings.Index(k3, "["); k >= 0 {
				r4 = k3[k:] + " " + r4
				k3 = k3[:k]
			}
			if k3 != "assert" {
				return fail(fmt.Errorf("before call X assert ..."))
			}
			c, err := mkClause("assert", r4, rc.line)
			if err != nil {
				return nil, err
			}
			curF.Before = append(curF.Before, &CallAssert{callee, ord, c})
		case "guarded", "wire", "final", "frozen", "transient", "lockinv", "atomic", "confined", "hb-by-channel", "ctor", "invariant", "private", "owns", "init":
			if curT == nil {
				return fail(fmt.Errorf("%s outside type", kw))
			}
			switch kw {
			case "guarded":
				tags, _, body := parseTags(rest)
				k := strings.LastIndex(body, " by ")
				if k < 0 {
					return fail(fmt.Errorf("guarded ... by lock"))
				}
				curT.Guarded = append(curT.Guarded, GuardDecl{Fields: splitNames(body[:k]), Lock: strings.TrimSpace(body[k+4:]), Tags: tags})
			case "wire":
				tags, _, body := parseTags(rest)
				wd := WireDecl{Tags: tags, Line: rc.line}
				for _, part := range strings.Split(body, ",") {
					fs := strings.Fields(part)
					if len(fs) != 3 || fs[1] != "as" {
						return fail(fmt.Errorf("wire: expected 'Field as member'"))
					}
					wd.Pairs = append(wd.Pairs, [2]string{fs[0], fs[2]})
				}
				curT.Wire = append(curT.Wire, wd)
			case "final":
				tags, _, body := parseTags(rest)
				curT.FinalTags = append(curT.FinalTags, tags...)
				curT.Final = append(curT.Final, splitNames(body)...)
				curT.FinalDecls = append(curT.FinalDecls, FinalDecl{Fields: splitNames(body), Tags: tags})
			case "lockinv":
				// lockinv[TAGS label] mu: expr
				tags, label, body := parseTags(rest)
				k := strings.Index(body, ":")
				if k < 0 {
					return fail(fmt.Errorf("lockinv mu: expr"))
				}
				pre := ""
				if len(tags) > 0 {
					pre = "[" + strings.Join(tags, ",")
					if label != "" {
						pre += " " + label
					}
					pre += "] "
				}
				c, err := mkClause("lockinv", pre+strings.TrimSpace(body[k+1:]), rc.line)
				if err != nil {
					return nil, err
				}
				curT.LockInvs = append(curT.LockInvs, LockInv{Lock: strings.TrimSpace(body[:k]), C: c})
			case "frozen":
				tags, _, body := parseTags(rest)
				body = strings.TrimSpace(body)
				var except []string
				if strings.HasPrefix(body, "except") {
					except = splitNames(strings.TrimPrefix(body, "except"))
				}
				curT.Frozen = append(curT.Frozen, FinalDecl{Tags: tags, Except: except})
			case "transient":
				tags, _, body := parseTags(rest)
				var except []string
				if k := strings.Index(body, " except "); k > 0 {
					except = splitNames(body[k+8:])
					body = body[:k]
				}
				curT.Transient = append(curT.Transient, FinalDecl{Fields: splitNames(body), Tags: tags, Except: except})
			case "init":
				curT.Inits = append(curT.Inits, splitNames(rest)...)
			case "owns":
				curT.Owns = append(curT.Owns, splitNames(rest)...)
			case "private":
				tags, _, body := parseTags(rest)
				k := strings.LastIndex(body, " writers ")
				if k < 0 {
					return fail(fmt.Errorf("private ... writers M1, M2"))
				}
				curT.Private = append(curT.Private, PrivateDecl{Fields: splitNames(body[:k]), Writers: splitNames(body[k+9:]), Tags: tags})
			case "atomic":
				curT.Atomic = append(curT.Atomic, splitNames(rest)...)
			case "confined":
				curT.Confined = append(curT.Confined, splitNames(rest)...)
			case "hb-by-channel":
				curT.HB = append(curT.HB, splitNames(rest)...)
			case "ctor":
				curT.Ctors = append(curT.Ctors, splitNames(rest)...)
			case "invariant":
				c, err := mkClause("invariant", rest, rc.line)
				if err != nil {
					return nil, err
				}
				curT.Invs = append(curT.Invs, c)
			}
		default:
			return fail(fmt.Errorf("unknown clause %q", kw))
		}
	}
	return sf, nil
}

func splitNames(s string) []string {
	var out []string
	for _, n := range strings.Split(s, ",") {
		if n = strings.TrimSpace(n); n != "" {
			out = append(out, n)
		}
	}
	return out
}

func splitTopLevel(s string, sep rune) []string {
	var out []string
	d := 0
	start := 0
	for i, r := range s {
		switch r {
		case '(', '[':
			d++
		case ')', ']':
			d--
		default:
			if r == sep && d == 0 {
				out = append(out, strings.TrimSpace(s[start:i]))
				start = i + 1
			}
		}
	}
	out = append(out, strings.TrimSpace(s[start:]))
	return out
}

func exprMentionsCall(e Expr, name string) bool {
	found := false
	walkExpr(e, func(x Expr) {
		if c, ok := x.(*ECall); ok {
			if id, ok := c.Fn.(*EIdent); ok && id.Name == name {
				found = true
			}
		}
	})
	return found
}

func walkExpr(e Expr, f func(Expr)) {
	if e == nil {
		return
	}
	f(e)
	switch x := e.(type) {
	case *EUnary:
		walkExpr(x.X, f)
	case *EBinary:
		walkExpr(x.X, f)
		walkExpr(x.Y, f)
	case *ECond:
		walkExpr(x.C, f)
		walkExpr(x.A, f)
		walkExpr(x.B, f)
	case *ESel:
		walkExpr(x.X, f)
	case *EIndex:
		walkExpr(x.X, f)
		walkExpr(x.I, f)
	case *ECall:
		walkExpr(x.Fn, f)
		for _, a := range x.Args {
			walkExpr(a, f)
		}
	case *EOld:
		walkExpr(x.X, f)
	case *EQuant:
		walkExpr(x.Body, f)
	case *EAssertT:
		walkExpr(x.X, f)
	}
}

func sortedKeys[V any](m map[string]V) []string {
	var ks []string
	for k := range m {
		ks = append(ks, k)
	}
	sort.Strings(ks)
	return ks
}
