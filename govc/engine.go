package main

// Engine: loads /repo, holds the spec database, global tables (type tags,
// function ids, final globals), and drives per-function translation.

import (
	"fmt"
	"go/token"
	"go/types"
	"os"
	"path/filepath"
	"reflect"
	"sort"
	"strings"
	"sync"

	"golang.org/x/tools/go/packages"
	"golang.org/x/tools/go/ssa"
	"golang.org/x/tools/go/ssa/ssautil"
)

const modulePath = "trpc.group/trpc-go/trpc-mcp-go"

type Engine struct {
	repo           string
	fset           *token.FileSet
	pkgs           []*packages.Package
	prog           *ssa.Program
	spkgs          map[string]*ssa.Package // by path
	tpkgs          map[string]*types.Package
	tags           *TagTable
	fnIDs          map[*ssa.Function]int
	fnByID         []*ssa.Function
	specs          *SpecDB
	mutableGlobals map[*ssa.Global]bool
	funcsByName    map[string]*ssa.Function // "pkgpath.Recv.Name" keys, see funcKey
	anonByParent   map[*ssa.Function][]*ssa.Function
	loadErrs       []string
	timeoutS       int
	retries        int32 // long-timeout retries used in this run
	specLint       []string
	thorough       bool
	seed           int
	need           int
	stale          []string
	staleTagged    []staleSpec
	globalIDs      map[*ssa.Global]int
	curProp        string
	scopeKinds     map[*ssa.Function][]string
	closerMemo     *closerInfo
	deadMemo       map[*ssa.Function]bool
	bindings       map[string]*fnBindings
	knownFns       map[string]bool
	bindMu         sync.Mutex
	relevantGhosts map[string]bool
	deadSkipped    map[string]bool
	closeMemo      map[*ssa.Function]int
}

// active: a clause takes part in the current property's check iff it is untagged or carries the property's tag.
func (e *Engine) active(tags []string) bool {
	return e.curProp == "" || len(tags) == 0 || hasTag(tags, e.curProp)
}

type SpecDB struct {
	files   []*SpecFile
	funcs   map[string]*FuncSpec // by ssa full name (fn.String()) or iface method full name
	csByKey map[string]*FuncSpec // top-level callspecs by key (named func type / T.field)
	types   map[string]*TypeSpec // by pkgpath.Name
	preds   map[string]*PredSpec // by name (global namespace; pkg-qualified on clash)
	ghosts  map[string]*GhostSpec
	lemmas  []*LemmaSpec
}

func loadEngine(repo string, contractMirror string) (*Engine, error) {
	e := &Engine{repo: repo, tags: newTagTable(), fnIDs: map[*ssa.Function]int{}, spkgs: map[string]*ssa.Package{},
		tpkgs: map[string]*types.Package{}, mutableGlobals: map[*ssa.Global]bool{}, funcsByName: map[string]*ssa.Function{},
		anonByParent: map[*ssa.Function][]*ssa.Function{}, timeoutS: 15, need: 1}
	overlay := map[string][]byte{}
	// inject mirror contract files that are missing in the tree
	if contractMirror != "" {
		filepath.Walk(contractMirror, func(p string, info os.FileInfo, err error) error {
			if err != nil || info.IsDir() || !strings.HasSuffix(p, "zz_contracts_verif.go") {
				return nil
			}
			rel, _ := filepath.Rel(contractMirror, p)
			dst := filepath.Join(repo, rel)
			if _, err := os.Stat(dst); err != nil {
				data, _ := os.ReadFile(p)
				overlay[dst] = data
			}
			return nil
		})
	}
	cfg := &packages.Config{Mode: packages.LoadAllSyntax, Dir: repo, BuildFlags: []string{"-tags=verif"}, Overlay: overlay,
		Env: append(os.Environ(), "GOFLAGS=-mod=mod", "GOPROXY=off", "GOSUMDB=off", "GOTOOLCHAIN=local")}
	pkgs, err := packages.Load(cfg, ".", "./internal/...")
	if err != nil {
		return nil, err
	}
	for _, p := range pkgs {
		for _, er := range p.Errors {
			e.loadErrs = append(e.loadErrs, er.Error())
		}
	}
	if len(e.loadErrs) > 0 {
		return e, fmt.Errorf("load errors: %s", strings.Join(e.loadErrs, "; "))
	}
	e.pkgs = pkgs
	e.fset = pkgs[0].Fset
	prog, _ := ssautil.AllPackages(pkgs, ssa.GlobalDebug|ssa.InstantiateGenerics)
	prog.Build()
	e.prog = prog
	e.deadSkipped = map[string]bool{}
	for _, p := range prog.AllPackages() {
		e.spkgs[p.Pkg.Path()] = p
		e.tpkgs[p.Pkg.Path()] = p.Pkg
	}
	// index functions
	for fn := range ssautil.AllFunctions(prog) {
		if fn.Pkg == nil && fn.Parent() == nil && fn.Synthetic == "" {
			// methods of instantiated types etc.
		}
		e.funcsByName[fn.String()] = fn
		if fn.Parent() != nil {
			e.anonByParent[fn.Parent()] = append(e.anonByParent[fn.Parent()], fn)
		}
	}
	for _, l := range e.anonByParent {
		sort.Slice(l, func(i, j int) bool { return l[i].Pos() < l[j].Pos() })
	}
	// mutable globals: stored to outside init
	for fn := range ssautil.AllFunctions(prog) {
		if fn.Pkg == nil || !strings.HasPrefix(fn.Pkg.Pkg.Path(), modulePath) {
			continue
		}
		if fn.Name() == "init" || strings.HasPrefix(fn.Name(), "init#") {
			continue
		}
		for _, b := range fn.Blocks {
			for _, in := range b.Instrs {
				if st, ok := in.(*ssa.Store); ok {
					if g, ok := st.Addr.(*ssa.Global); ok {
						e.mutableGlobals[g] = true
					}
				}
			}
		}
	}
	return e, nil
}

func (e *Engine) fnID(f *ssa.Function) int {
	if id, ok := e.fnIDs[f]; ok {
		return id
	}
	id := 1000000 + len(e.fnIDs)
	e.fnIDs[f] = id
	e.fnByID = append(e.fnByID, f)
	return id
}

func inModule(p *types.Package) bool {
	return p != nil && strings.HasPrefix(p.Path(), modulePath)
}

// ---------------------------------------------------------------------------
// spec loading

func (e *Engine) loadSpecs(externDir string) error {
	db := &SpecDB{funcs: map[string]*FuncSpec{}, csByKey: map[string]*FuncSpec{}, types: map[string]*TypeSpec{},
		preds: map[string]*PredSpec{}, ghosts: map[string]*GhostSpec{}}
	e.specs = db
	var files []*SpecFile
	// in-repo contract files (possibly via overlay): find through package syntax
	for _, p := range e.pkgs {
		for _, f := range p.CompiledGoFiles {
			if filepath.Base(f) == "zz_contracts_verif.go" {
				path := f
				// overlay content is not on disk: fall back to mirror
				if _, err := os.Stat(path); err != nil {
					rel, _ := filepath.Rel(e.repo, f)
					path = filepath.Join("/verif/contracts/repo", rel)
				}
				sf, err := parseSpecFile(path, p.PkgPath)
				if err != nil {
					return err
				}
				files = append(files, sf)
			}
		}
	}
	if externDir != "" {
		ms, _ := filepath.Glob(filepath.Join(externDir, "*.spec"))
		sort.Strings(ms)
		for _, m := range ms {
			sf, err := parseSpecFile(m, modulePath)
			if err != nil {
				return err
			}
			files = append(files, sf)
		}
	}
	db.files = files
	for _, sf := range files {
		for _, p := range sf.Preds {
			if _, dup := db.preds[p.Name]; dup {
				return fmt.Errorf("%s: duplicate pred/fun %s", p.Line, p.Name)
			}
			db.preds[p.Name] = p
		}
		for _, g := range sf.Ghosts {
			if _, dup := db.ghosts[g.Name]; dup {
				return fmt.Errorf("%s: duplicate ghost %s", g.Line, g.Name)
			}
			db.ghosts[g.Name] = g
		}
		db.lemmas = append(db.lemmas, sf.Lemmas...)
		for _, t := range sf.Types {
			k := sf.Pkg + "." + t.Name
			if strings.Contains(t.Name, "/") || strings.Count(t.Name, ".") > 0 {
				k = t.Name // fully qualified (types of other packages in extern spec files)
			}
			if old, ok := db.types[k]; ok {
				// several blocks for one type (one per property family): merge
				old.Guarded = append(old.Guarded, t.Guarded...)
				old.Final = append(old.Final, t.Final...)
				old.FinalTags = append(old.FinalTags, t.FinalTags...)
				old.FinalDecls = append(old.FinalDecls, t.FinalDecls...)
				old.Private = append(old.Private, t.Private...)
				old.Transient = append(old.Transient, t.Transient...)
				old.Wire = append(old.Wire, t.Wire...)
				old.LockInvs = append(old.LockInvs, t.LockInvs...)
				old.Frozen = append(old.Frozen, t.Frozen...)
				old.Owns = append(old.Owns, t.Owns...)
				old.Inits = append(old.Inits, t.Inits...)
				old.Atomic = append(old.Atomic, t.Atomic...)
				old.Confined = append(old.Confined, t.Confined...)
				old.HB = append(old.HB, t.HB...)
				old.Invs = append(old.Invs, t.Invs...)
				old.Ctors = append(old.Ctors, t.Ctors...)
				continue
			}
			db.types[k] = t
		}
		for _, f := range sf.Funcs {
			if f.IsCallSpec {
				db.csByKey[f.Key] = f
				continue
			}
			name, err := e.resolveFuncKey(sf.Pkg, f.Key, f.Extern)
			if err != nil {
				// a function under contract that no longer exists: its clauses cannot be checked.  That is
				// a finding only for the properties those clauses belong to (e.staleTagged); a contract
				// without tagged clauses (a helper's frame, an inline marker) simply lapses.
				e.staleTagged = append(e.staleTagged, staleSpec{msg: fmt.Sprintf("%s: %v", f.Line, err), spec: f})
				continue
			}
			if old, dup := db.funcs[name]; dup {
				// several blocks for one function (one per property family): merge
				old.Requires = append(old.Requires, f.Requires...)
				old.Ensures = append(old.Ensures, f.Ensures...)
				old.Before = append(old.Before, f.Before...)
				old.Sweep = append(old.Sweep, f.Sweep...)
				old.SweepTags = append(old.SweepTags, f.SweepTags...)
				old.Counted = append(old.Counted, f.Counted...)
				old.CountedWhen = append(old.CountedWhen, f.CountedWhen...)
				old.Records = append(old.Records, f.Records...)
				old.Holds = append(old.Holds, f.Holds...)
				old.Waive = append(old.Waive, f.Waive...)
				old.NoSweep = append(old.NoSweep, f.NoSweep...)
				for k, v := range f.CallSpecs {
					old.CallSpecs[k] = v
				}
				for k, v := range f.Loops {
					if ol, ok := old.Loops[k]; ok {
						ol.Invariants = append(ol.Invariants, v.Invariants...)
						ol.Increases = append(ol.Increases, v.Increases...)
						ol.Steps = append(ol.Steps, v.Steps...)
						if v.Decreases != nil {
							ol.Decreases = v.Decreases
						}
					} else {
						old.Loops[k] = v
					}
				}
				if f.HasMod {
					if old.HasMod && (old.ModAll != f.ModAll || old.Pure != f.Pure) {
						return fmt.Errorf("%s: conflicting frames for %s", f.Line, name)
					}
					old.HasMod, old.ModAll, old.Pure, old.Func = true, f.ModAll, f.Pure, f.Func || old.Func
					old.Modifies = append(old.Modifies, f.Modifies...)
				}
				old.Trusted = old.Trusted || f.Trusted
				old.TrustedTags = append(old.TrustedTags, f.TrustedTags...)
				old.Helper = old.Helper || f.Helper
				old.Inline = old.Inline || f.Inline
				continue
			}
			if fn := e.funcsByName[name]; fn == nil || len(fn.Blocks) == 0 {
				f.Extern = true // interface method or body-less function: the contract is assumed
			}
			db.funcs[name] = f
		}
	}
	e.computeFieldAliases()
	e.lintGhostFrames()
	return nil
}

// resolveFuncKey maps a key written in a spec file to the canonical name used
// for lookup: ssa Function.String() for functions/methods, or the types.Func
// FullName for interface methods.
func (e *Engine) resolveFuncKey(pkgPath, key string, extern bool) (string, error) {
	key = strings.TrimSpace(key)
	anon := ""
	if k := strings.Index(key, "$"); k >= 0 {
		anon = key[k:]
		key = key[:k]
	}
	if key == "(error).Error" || key == "error.Error" {
		return "(error).Error", nil
	}
	// explicit full names:  (*pkg/path.T).M   (pkg/path.T).M   pkg/path.F
	if strings.HasPrefix(key, "(") || strings.Contains(key, "/") || extern {
		if fn, ok := e.funcsByName[key]; ok {
			return e.withAnon(fn, anon)
		}
		// interface method?  (pkg.Iface).Method
		if strings.HasPrefix(key, "(") {
			k := strings.LastIndex(key, ").")
			tn := strings.TrimPrefix(key[1:k], "*")
			mn := key[k+2:]
			dot := strings.LastIndex(tn, ".")
			pp, tname := tn[:dot], tn[dot+1:]
			if tp := e.tpkgs[pp]; tp != nil {
				if obj := tp.Scope().Lookup(tname); obj != nil {
					if _, isI := obj.Type().Underlying().(*types.Interface); isI {
						m, _, _ := types.LookupFieldOrMethod(obj.Type(), true, tp, mn)
						if m != nil {
							return m.(*types.Func).FullName(), nil
						}
					}
				}
			}
		} else if strings.HasPrefix(key, "error.") {
			return "(error)." + key[6:], nil
		} else {
			// pkg.Func with short or full path
			dot := strings.LastIndex(key, ".")
			if dot > 0 {
				pp, fname := key[:dot], key[dot+1:]
				for path, sp := range e.spkgs {
					if path == pp || sp.Pkg.Name() == pp && !strings.Contains(pp, "/") {
						if fn := sp.Func(fname); fn != nil {
							return e.withAnon(fn, anon)
						}
					}
				}
			}
		}
		if key == "error.Error" || key == "(error).Error" {
			return "(error).Error", nil
		}
		return "", fmt.Errorf("stale contract: function %q not found", key)
	}
	sp := e.spkgs[pkgPath]
	if sp == nil {
		return "", fmt.Errorf("stale contract: package %q not loaded", pkgPath)
	}
	if dot := strings.Index(key, "."); dot >= 0 {
		tname, mname := strings.TrimPrefix(key[:dot], "*"), key[dot+1:]
		obj := sp.Pkg.Scope().Lookup(tname)
		if obj == nil {
			return "", fmt.Errorf("stale contract: type %q not found in %s", tname, pkgPath)
		}
		if _, isI := obj.Type().Underlying().(*types.Interface); isI {
			m, _, _ := types.LookupFieldOrMethod(obj.Type(), true, sp.Pkg, mname)
			if m == nil {
				return "", fmt.Errorf("stale contract: method %s.%s not found", tname, mname)
			}
			return m.(*types.Func).FullName(), nil
		}
		for _, T := range []types.Type{obj.Type(), types.NewPointer(obj.Type())} {
			ms := e.prog.MethodSets.MethodSet(T)
			if sel := ms.Lookup(sp.Pkg, mname); sel != nil {
				fn := e.prog.MethodValue(sel)
				if fn != nil && fn.Synthetic == "" {
					return e.withAnon(fn, anon)
				}
			}
		}
		return "", fmt.Errorf("stale contract: method %s.%s not found", tname, mname)
	}
	if fn := sp.Func(key); fn != nil {
		return e.withAnon(fn, anon)
	}
	return "", fmt.Errorf("stale contract: function %q not found in %s", key, pkgPath)
}

func (e *Engine) withAnon(fn *ssa.Function, anon string) (string, error) {
	for anon != "" {
		// $k : k-th anonymous function (1-based, source order)
		rest := anon[1:]
		k := 0
		i := 0
		for i < len(rest) && rest[i] >= '0' && rest[i] <= '9' {
			k = k*10 + int(rest[i]-'0')
			i++
		}
		anon = rest[i:]
		l := e.anonByParent[fn]
		if k < 1 || k > len(l) {
			return "", fmt.Errorf("stale contract: %s has no anonymous function #%d", fn, k)
		}
		fn = l[k-1]
	}
	return fn.String(), nil
}

func (e *Engine) specFor(fn *ssa.Function) *FuncSpec {
	if fn == nil {
		return nil
	}
	if s, ok := e.specs.funcs[fn.String()]; ok {
		return s
	}
	// instantiated generic: try origin
	if o := fn.Origin(); o != nil {
		if s, ok := e.specs.funcs[o.String()]; ok {
			return s
		}
	}
	return nil
}

func (e *Engine) typeSpecOf(t types.Type) *TypeSpec {
	if p, ok := t.(*types.Pointer); ok {
		t = p.Elem()
	}
	n, ok := t.(*types.Named)
	if !ok || n.Obj().Pkg() == nil {
		return nil
	}
	return e.specs.types[n.Obj().Pkg().Path()+"."+n.Obj().Name()]
}

// resolveType turns a spec TypeExpr into a go/types type, in the scope of pkg.
func (e *Engine) resolveType(pkgPath string, t *TypeExpr) (types.Type, error) {
	switch t.Kind {
	case "ptr":
		el, err := e.resolveType(pkgPath, t.Elem)
		if err != nil {
			return nil, err
		}
		return types.NewPointer(el), nil
	case "slice":
		el, err := e.resolveType(pkgPath, t.Elem)
		if err != nil {
			return nil, err
		}
		return types.NewSlice(el), nil
	case "map":
		k, err := e.resolveType(pkgPath, t.Key)
		if err != nil {
			return nil, err
		}
		el, err := e.resolveType(pkgPath, t.Elem)
		if err != nil {
			return nil, err
		}
		return types.NewMap(k, el), nil
	case "iface":
		return types.NewInterfaceType(nil, nil), nil
	}
	if t.Pkg == "" {
		if o := types.Universe.Lookup(t.Name); o != nil {
			if tn, ok := o.(*types.TypeName); ok {
				return tn.Type(), nil
			}
		}
		if t.Name == "any" {
			return types.NewInterfaceType(nil, nil), nil
		}
		if p := e.tpkgs[pkgPath]; p != nil {
			if o := p.Scope().Lookup(t.Name); o != nil {
				if tn, ok := o.(*types.TypeName); ok {
					return tn.Type(), nil
				}
			}
		}
		// search all module packages (extern spec files are not bound to one package)
		for path, p := range e.tpkgs {
			if strings.HasPrefix(path, modulePath) {
				if o := p.Scope().Lookup(t.Name); o != nil {
					if tn, ok := o.(*types.TypeName); ok {
						return tn.Type(), nil
					}
				}
			}
		}
		return nil, fmt.Errorf("unknown type %s", t.Name)
	}
	var cands []*types.Package
	for path, p := range e.tpkgs {
		if p.Name() == t.Pkg || path == t.Pkg {
			cands = append(cands, p)
		}
	}
	sort.Slice(cands, func(i, j int) bool { return len(cands[i].Path()) < len(cands[j].Path()) })
	for _, p := range cands {
		if o := p.Scope().Lookup(t.Name); o != nil {
			if tn, ok := o.(*types.TypeName); ok {
				return tn.Type(), nil
			}
		}
	}
	return nil, fmt.Errorf("unknown type %s.%s", t.Pkg, t.Name)
}

// mayClose: can a call of fn (transitively through static calls, closures,
// go and defer) execute the close builtin?  Dynamic and interface calls are
// assumed not to close channels private to the module's types (listed as an
// assumption in the evidence).
func (e *Engine) mayClose(fn *ssa.Function) bool {
	if e.closeMemo == nil {
		e.closeMemo = map[*ssa.Function]int{}
	}
	switch e.closeMemo[fn] {
	case 1:
		return false
	case 2:
		return true
	case 3:
		return false // in progress (recursion)
	}
	e.closeMemo[fn] = 3
	res := false
	var visit func(cc *ssa.CallCommon)
	visit = func(cc *ssa.CallCommon) {
		if b, ok := cc.Value.(*ssa.Builtin); ok && b.Name() == "close" {
			res = true
			return
		}
		if c := cc.StaticCallee(); c != nil && c != fn {
			if c.Pkg != nil && inModule(c.Pkg.Pkg) || c.Parent() != nil {
				if e.mayClose(c) {
					res = true
				}
			}
		}
	}
	for _, b := range fn.Blocks {
		for _, in := range b.Instrs {
			switch x := in.(type) {
			case *ssa.Call:
				visit(&x.Call)
			case *ssa.Defer:
				visit(&x.Call)
			case *ssa.Go:
				visit(&x.Call)
			case *ssa.MakeClosure:
				if c, ok := x.Fn.(*ssa.Function); ok && e.mayClose(c) {
					res = true
				}
			}
		}
	}
	if res {
		e.closeMemo[fn] = 2
	} else {
		e.closeMemo[fn] = 1
	}
	return res
}

// ---------------------------------------------------------------------------
// Who closes the channels kept in a guarded field?  For every close(x) in the
// module the provenance of x is determined syntactically: an element of (or the
// value of) struct field T.f, or a channel made in the same function (then the
// fields it is stored into), or unknown.  Channels of a type with a closer of
// unknown provenance, and channels kept in a field that has closers, may be
// closed by another goroutine whenever the guarding lock is not held.

type closerInfo struct {
	stores  map[string][]ssa.Value // "pkg.T.f" -> channel values stored into the field (or its container)
	byField map[string][]string    // "pkg.T.f" -> closing functions
	unknown map[string][]string    // channel element type key -> closing functions of unknown provenance
	anyOf   map[string]bool        // channel element type key -> some close() on that type exists
}

func fieldOfAddr(v ssa.Value) string {
	fa, ok := v.(*ssa.FieldAddr)
	if !ok {
		return ""
	}
	pt, ok := fa.X.Type().Underlying().(*types.Pointer)
	if !ok {
		return ""
	}
	st, ok := pt.Elem().Underlying().(*types.Struct)
	if !ok {
		return ""
	}
	name := "?"
	if n, ok := pt.Elem().(*types.Named); ok && n.Obj().Pkg() != nil {
		name = n.Obj().Pkg().Path() + "." + n.Obj().Name()
	} else if inner, ok := fa.X.(*ssa.FieldAddr); ok {
		name = fieldOfAddr(inner) // field of an anonymous struct field
	}
	return name + "." + st.Field(fa.Field).Name()
}

// chanProvenance: fields a channel value comes from ("" entries: unknown).
func chanProvenance(v ssa.Value, depth int) []string {
	if depth > 6 {
		return []string{""}
	}
	switch x := v.(type) {
	case *ssa.UnOp:
		if x.Op == token.MUL {
			if f := fieldOfAddr(x.X); f != "" {
				return []string{f}
			}
		}
	case *ssa.Extract:
		return chanProvenance(x.Tuple, depth+1)
	case *ssa.Next:
		return chanProvenance(x.Iter, depth+1)
	case *ssa.Range:
		return chanProvenance(x.X, depth+1)
	case *ssa.Lookup:
		return chanProvenance(x.X, depth+1)
	case *ssa.ChangeType:
		return chanProvenance(x.X, depth+1)
	case *ssa.TypeAssert:
		return chanProvenance(x.X, depth+1)
	case *ssa.MakeInterface:
		return chanProvenance(x.X, depth+1)
	case *ssa.Phi:
		var out []string
		for _, e := range x.Edges {
			out = append(out, chanProvenance(e, depth+1)...)
		}
		return out
	case *ssa.MakeChan:
		// a channel made here: the fields it is stored into
		var out []string
		var follow func(v ssa.Value)
		hops := 0
		follow = func(v ssa.Value) {
			if v.Referrers() == nil {
				return
			}
			for _, r := range *v.Referrers() {
				switch u := r.(type) {
				case *ssa.Call:
					// handed to an unexported function of the module (a registration moved into a helper):
					// what the helper does with its parameter
					if callee := u.Call.StaticCallee(); callee != nil && callee.Object() != nil && !callee.Object().Exported() &&
						callee.Pkg != nil && inModule(callee.Pkg.Pkg) && len(callee.Blocks) > 0 && hops < 3 {
						for i, a := range u.Call.Args {
							if a == v && i < len(callee.Params) {
								hops++
								follow(callee.Params[i])
								hops--
							}
						}
					}
				case *ssa.MakeInterface:
					follow(u)
				case *ssa.MapUpdate:
					if u.Value == v {
						out = append(out, chanProvenance(u.Map, depth+1)...)
					}
				case *ssa.Store:
					if u.Val == v {
						if f := fieldOfAddr(u.Addr); f != "" {
							out = append(out, f)
						} else if _, isAlloc := u.Addr.(*ssa.Alloc); !isAlloc {
							out = append(out, "")
						}
					}
				}
			}
		}
		follow(x)
		if len(out) == 0 {
			out = []string{"<local>"}
		}
		return out
	}
	return []string{""}
}

func (e *Engine) closers() *closerInfo {
	if e.closerMemo != nil {
		return e.closerMemo
	}
	ci := &closerInfo{byField: map[string][]string{}, unknown: map[string][]string{}, stores: map[string][]ssa.Value{}, anyOf: map[string]bool{}}
	for _, fn := range e.funcsByName {
		root := fn
		for root.Parent() != nil {
			root = root.Parent()
		}
		if root.Pkg == nil || !inModule(root.Pkg.Pkg) || fn.Synthetic != "" || e.deadFuncs()[root] {
			continue
		}
		for _, b := range fn.Blocks {
			for _, in := range b.Instrs {
				var cc *ssa.CallCommon
				switch x := in.(type) {
				case *ssa.MapUpdate:
					if isChanOrBoxed(x.Value) {
						for _, p := range chanProvenance(x.Map, 0) {
							ci.stores[p] = append(ci.stores[p], x.Value)
						}
					}
				case *ssa.Store:
					if isChanOrBoxed(x.Val) {
						if fl := fieldOfAddr(x.Addr); fl != "" {
							ci.stores[fl] = append(ci.stores[fl], x.Val)
						}
					}
				case *ssa.Call:
					cc = &x.Call
				case *ssa.Defer:
					cc = &x.Call
				case *ssa.Go:
					cc = &x.Call
				}
				if cc == nil {
					continue
				}
				if bi, ok := cc.Value.(*ssa.Builtin); !ok || bi.Name() != "close" {
					continue
				}
				ct, ok := cc.Args[0].Type().Underlying().(*types.Chan)
				if !ok {
					continue
				}
				ci.anyOf[typeKey(ct.Elem())] = true
				for _, p := range chanProvenance(cc.Args[0], 0) {
					switch p {
					case "":
						ci.unknown[typeKey(ct.Elem())] = append(ci.unknown[typeKey(ct.Elem())], fn.String())
					case "<local>":
					default:
						ci.byField[p] = append(ci.byField[p], fn.String())
					}
				}
			}
		}
	}
	e.closerMemo = ci
	return ci
}

// chanTypeIn: the channel type kept in a field of type t (the field itself, or the
// elements of a map or slice).
func chanTypeIn(t types.Type) *types.Chan {
	switch u := t.Underlying().(type) {
	case *types.Chan:
		return u
	case *types.Map:
		if c, ok := u.Elem().Underlying().(*types.Chan); ok {
			return c
		}
	case *types.Slice:
		if c, ok := u.Elem().Underlying().(*types.Chan); ok {
			return c
		}
	}
	return nil
}

func isChanOrBoxed(v ssa.Value) bool {
	if _, ok := v.Type().Underlying().(*types.Chan); ok {
		return true
	}
	if mi, ok := v.(*ssa.MakeInterface); ok {
		_, ok := mi.X.Type().Underlying().(*types.Chan)
		return ok
	}
	return false
}

// neverClosed: no code in the module can close the channel v.  v comes from fields
// whose channels are all made freshly by the storing function, none of those channels
// is also kept somewhere that has closers, and no close() of unknown provenance
// exists for the channel type.  (Code outside the module is assumed not to close the
// module's internal channels.)
func (e *Engine) neverClosed(v ssa.Value) (bool, string) {
	ct, ok := v.Type().Underlying().(*types.Chan)
	if !ok {
		return false, ""
	}
	ci := e.closers()
	if !ci.anyOf[typeKey(ct.Elem())] {
		return true, "any channel of type " + ct.String() + " (the module never closes one)"
	}
	if len(ci.unknown[typeKey(ct.Elem())]) > 0 {
		return false, ""
	}
	ps := chanProvenance(v, 0)
	if len(ps) == 0 {
		return false, ""
	}
	for _, p := range ps {
		if p == "" || p == "<local>" {
			return false, ""
		}
		if !e.fieldNeverClosed(ci, p) {
			return false, ""
		}
	}
	return true, strings.Join(ps, ", ")
}

func (e *Engine) fieldNeverClosed(ci *closerInfo, p string) bool {
	if len(ci.byField[p]) > 0 || len(ci.stores[p]) == 0 {
		return false
	}
	for _, sv0 := range ci.stores[p] {
		svs, ok := e.storedChanSources(sv0, 0)
		if !ok {
			return false
		}
		for _, sv := range svs {
			mc, ok := sv.(*ssa.MakeChan)
			if !ok {
				return false
			}
			for _, q := range chanProvenance(mc, 0) {
				if q == "" || q == "<local>" || len(ci.byField[q]) > 0 {
					return false
				}
			}
		}
	}
	return true
}

// storedChanSources: where a stored channel value comes from.  A parameter of an unexported function that
// is only ever called directly stands for the arguments at its call sites (a registration moved into a
// helper).
func (e *Engine) storedChanSources(sv ssa.Value, depth int) ([]ssa.Value, bool) {
	if mi, ok := sv.(*ssa.MakeInterface); ok {
		sv = mi.X
	}
	par, ok := sv.(*ssa.Parameter)
	if !ok {
		return []ssa.Value{sv}, true
	}
	fn := par.Parent()
	if depth > 2 || fn == nil || fn.Parent() != nil || fn.Object() == nil || fn.Object().Exported() {
		return nil, false
	}
	idx := -1
	for i, q := range fn.Params {
		if q == par {
			idx = i
		}
	}
	if idx < 0 {
		return nil, false
	}
	var out []ssa.Value
	for _, g := range e.funcsByName {
		for _, b := range g.Blocks {
			for _, in := range b.Instrs {
				// the function used as a value (stored, passed, bound): callers unknown
				if _, isCall := in.(ssa.CallInstruction); !isCall {
					for _, op := range in.Operands(nil) {
						if *op == ssa.Value(fn) {
							return nil, false
						}
					}
					continue
				}
				cc := in.(ssa.CallInstruction).Common()
				for _, a := range cc.Args {
					if a == ssa.Value(fn) {
						return nil, false
					}
				}
				if cc.StaticCallee() != fn {
					continue
				}
				if _, isGo := in.(*ssa.Go); isGo {
					return nil, false
				}
				if idx >= len(cc.Args) {
					return nil, false
				}
				srcs, ok := e.storedChanSources(cc.Args[idx], depth+1)
				if !ok {
					return nil, false
				}
				out = append(out, srcs...)
			}
		}
	}
	if len(out) == 0 {
		return nil, false
	}
	return out, true
}

// ---------------------------------------------------------------------------
// Unreachable functions: unexported, never referenced by any instruction of the
// module (call target, function value, closure), and not callable through an
// interface (no interface method or invoke of that name).  Nothing a user does can
// run them; they are left out of the safety sweeps and of the closer analysis and
// are listed in the evidence.

func (e *Engine) deadFuncs() map[*ssa.Function]bool {
	if e.deadMemo != nil {
		return e.deadMemo
	}
	referenced := map[*ssa.Function]bool{}
	invoked := map[string]bool{}
	var all []*ssa.Function
	for _, fn := range e.funcsByName {
		root := fn
		for root.Parent() != nil {
			root = root.Parent()
		}
		if root.Pkg == nil || !inModule(root.Pkg.Pkg) {
			continue
		}
		all = append(all, fn)
		for _, b := range fn.Blocks {
			for _, in := range b.Instrs {
				var ops []*ssa.Value
				for _, op := range in.Operands(ops) {
					if op == nil || *op == nil {
						continue
					}
					if g, ok := (*op).(*ssa.Function); ok {
						referenced[g] = true
						if g.Synthetic != "" { // bound-method closure or thunk: the method itself
							if obj, ok := g.Object().(*types.Func); ok {
								if m := e.prog.FuncValue(obj); m != nil {
									referenced[m] = true
								}
							}
						}
						if o := g.Origin(); o != nil {
							referenced[o] = true
						}
					}
				}
				if c, ok := in.(ssa.CallInstruction); ok && c.Common().IsInvoke() {
					invoked[c.Common().Method.Name()] = true
				}
			}
		}
	}
	for _, p := range e.prog.AllPackages() {
		if !inModule(p.Pkg) {
			continue
		}
		sc := p.Pkg.Scope()
		for _, n := range sc.Names() {
			if tn, ok := sc.Lookup(n).(*types.TypeName); ok {
				if it, ok := tn.Type().Underlying().(*types.Interface); ok {
					for i := 0; i < it.NumMethods(); i++ {
						invoked[it.Method(i).Name()] = true
					}
				}
			}
		}
	}
	dead := map[*ssa.Function]bool{}
	for _, fn := range all {
		if fn.Parent() != nil || fn.Synthetic != "" || len(fn.Blocks) == 0 {
			continue
		}
		if token.IsExported(fn.Name()) || fn.Name() == "init" || fn.Name() == "main" || referenced[fn] || invoked[fn.Name()] {
			continue
		}
		dead[fn] = true
	}
	e.deadMemo = dead
	return dead
}

// ghostRelevant: is the ghost mentioned by a clause that takes part in the check of
// the current property?  (Frame obligations for other ghosts are pointless: nothing
// that is assumed or proved for this property reads them.)
func (e *Engine) ghostRelevant(name string) bool {
	if e.curProp == "" {
		return true
	}
	if e.relevantGhosts == nil {
		e.relevantGhosts = map[string]bool{}
		words := func(src string) {
			for _, w := range strings.FieldsFunc(src, func(r rune) bool {
				return !(r == '_' || r >= 'a' && r <= 'z' || r >= 'A' && r <= 'Z' || r >= '0' && r <= '9')
			}) {
				e.relevantGhosts[w] = true
			}
		}
		clause := func(c *Clause) {
			if c != nil && e.active(c.Tags) {
				words(c.Src)
			}
		}
		for _, s := range e.specs.funcs {
			for _, c := range s.Requires {
				clause(c)
			}
			for _, c := range s.Ensures {
				clause(c)
			}
			for _, l := range s.Loops {
				for _, c := range l.Invariants {
					clause(c)
				}
				for _, c := range l.Increases {
					clause(c)
				}
				for _, c := range l.Steps {
					clause(c)
				}
				clause(l.Decreases)
			}
			for _, b := range s.Before {
				clause(b.C)
			}
			for _, cs := range s.CallSpecs {
				for _, c := range cs.Ensures {
					clause(c)
				}
			}
		}
		for _, cs := range e.specs.csByKey {
			for _, c := range cs.Ensures {
				clause(c)
			}
			for _, c := range cs.Requires {
				clause(c)
			}
		}
		for _, t := range e.specs.types {
			for _, c := range t.Invs {
				clause(c)
			}
			for _, li := range t.LockInvs {
				clause(li.C)
			}
		}
		for _, p := range e.specs.preds {
			words(p.Src)
		}
	}
	// parametrised ghosts are keyed "name" too
	if i := strings.IndexAny(name, ".("); i > 0 {
		name = name[:i]
	}
	return e.relevantGhosts[name]
}

type staleSpec struct {
	msg  string
	spec *FuncSpec
}

// lintGhostFrames: an ensures clause that relates a stable ghost to its old value ("g == old(g) + 1") on a
// function whose frame does not list g would be contradictory at every call site (stable ghosts survive a
// call unless the contract lists them), and everything after such a call would verify vacuously.  A contract
// that speaks about the new value of a stable ghost therefore lists it implicitly: the ghost is added to the
// function's modifies list (recorded in e.specLint for the evidence).  Only ghosts at the head of a term count
// (status(encw(e)) speaks about status, not about encw).
func (e *Engine) lintGhostFrames() {
	var mentions func(x Expr, inOld bool, cur, old map[string]bool)
	mentions = func(x Expr, inOld bool, cur, old map[string]bool) {
		note := func(name string) {
			if g, ok := e.specs.ghosts[name]; ok && g.Stable {
				if inOld {
					old[name] = true
				} else {
					cur[name] = true
				}
			}
		}
		switch n := x.(type) {
		case *EIdent:
			note(n.Name)
		case *EUnary:
			mentions(n.X, inOld, cur, old)
		case *EBinary:
			mentions(n.X, inOld, cur, old)
			mentions(n.Y, inOld, cur, old)
		case *ECond:
			mentions(n.C, inOld, cur, old)
			mentions(n.A, inOld, cur, old)
			mentions(n.B, inOld, cur, old)
		case *ESel:
			mentions(n.X, inOld, cur, old)
		case *EIndex:
			mentions(n.X, inOld, cur, old)
			mentions(n.I, inOld, cur, old)
		case *ECall:
			if id, ok := n.Fn.(*EIdent); ok {
				if _, isGhost := e.specs.ghosts[id.Name]; isGhost {
					note(id.Name)
					// arguments of a ghost application are locations, not values being constrained:
					// ghosts that occur only there are not heads
					for _, a := range n.Args {
						skipHeads(a, inOld, cur, old, mentions)
					}
					return
				}
				if id.Name == "old" || id.Name == "atlock" {
					for _, a := range n.Args {
						mentions(a, true, cur, old)
					}
					return
				}
			}
			for _, a := range n.Args {
				mentions(a, inOld, cur, old)
			}
		case *EOld:
			mentions(n.X, true, cur, old)
		case *EQuant:
			mentions(n.Body, inOld, cur, old)
		case *EAssertT:
			mentions(n.X, inOld, cur, old)
		}
	}
	listed := func(fs *FuncSpec) map[string]bool {
		out := map[string]bool{}
		for _, m := range fs.Modifies {
			switch n := m.(type) {
			case *EIdent:
				out[n.Name] = true
			case *ECall:
				if id, ok := n.Fn.(*EIdent); ok {
					out[id.Name] = true
				}
			}
		}
		for _, g := range fs.Counted {
			out[g] = true
		}
		for _, g := range fs.CountedWhen {
			out[g.Ghost] = true
		}
		for _, r := range fs.Records {
			out[r[0]] = true
		}
		return out
	}
	everModified := map[string]bool{}
	fix := func(name string, fs *FuncSpec) {
		if fs.Pure && !fs.ModAll {
			return
		}
		if fs.ModAll && len(fs.Modifies) == 0 && !fs.Extern && !fs.Trusted {
			return // modifies * alone: stable ghosts included
		}
		have := listed(fs)
		if !fs.HasMod && len(fs.Ensures) > 0 && !fs.Extern {
			fs.RiskyFrame = true
		}
		for _, c := range fs.Ensures {
			cur, old := map[string]bool{}, map[string]bool{}
			mentions(c.E, false, cur, old)
			for _, g := range sortedKeys(cur) {
				// any constraint on the new value of a stable ghost ("status(w) != 0" as much as "g == old(g) + 1")
				// contradicts "unchanged" for some pre-state, so the ghost belongs to the frame
				if !have[g] && everModified[g] {
					have[g] = true
					fs.RiskyFrame = true
					fs.Modifies = append(fs.Modifies, &EIdent{Name: g})
					e.specLint = append(e.specLint, fmt.Sprintf("%s: %s speaks about the new value of stable ghost %s: listed in its frame implicitly", c.Line, shortCallee(name), g))
				}
			}
		}
	}
	// ghosts that some contract changes explicitly (modifies / counted / records); a ghost that no contract ever
	// changes is a constant spec function (idctr: "the counter printed in an id"), and facts about it are not
	// effects
	for _, fs := range e.specs.funcs {
		for g := range listed(fs) {
			everModified[g] = true
		}
	}
	for _, fs := range e.specs.csByKey {
		for g := range listed(fs) {
			everModified[g] = true
		}
	}
	for _, name := range sortedKeys(e.specs.funcs) {
		fix(name, e.specs.funcs[name])
	}
	for _, k := range sortedKeys(e.specs.csByKey) {
		fix("callspec "+k, e.specs.csByKey[k])
	}
}

// skipHeads: visit the argument of a ghost application; nested ghost applications there are locations.
func skipHeads(x Expr, inOld bool, cur, old map[string]bool, mentions func(Expr, bool, map[string]bool, map[string]bool)) {
	switch n := x.(type) {
	case *ECall:
		for _, a := range n.Args {
			skipHeads(a, inOld, cur, old, mentions)
		}
	case *EIdent:
	default:
		_ = n
	}
}

// wireChecks: type clause "wire[TAGS] Field as member": the struct tag of the field is exactly `json:"member"`
// (no omitempty, no "-", no other name), so encoding/json always emits the member.  Decided on the type
// declaration itself.
type wireResult struct {
	name, detail, line string
	ok                 bool
}

func (e *Engine) wireChecks() []wireResult {
	var out []wireResult
	for _, tkey := range sortedKeys(e.specs.types) {
		ts := e.specs.types[tkey]
		for _, wd := range ts.Wire {
			if !e.active(wd.Tags) {
				continue
			}
			i := strings.LastIndex(tkey, ".")
			var st *types.Struct
			for _, p := range e.pkgs {
				if i > 0 && p.Types != nil && p.Types.Path() == tkey[:i] {
					if tn, ok := p.Types.Scope().Lookup(tkey[i+1:]).(*types.TypeName); ok {
						st, _ = tn.Type().Underlying().(*types.Struct)
					}
				}
			}
			for _, pr := range wd.Pairs {
				field, member := pr[0], pr[1]
				if to, ok := fieldAliasByType[tkey][field]; ok {
					field = to
				}
				r := wireResult{name: fmt.Sprintf("type:%s#wire:%s", ts.Name, pr[0]), line: wd.Line}
				if st == nil {
					r.detail = "no such struct type"
				} else {
					found := false
					for k := 0; k < st.NumFields(); k++ {
						if st.Field(k).Name() == field {
							found = true
							tag := reflect.StructTag(st.Tag(k)).Get("json")
							if tag == member {
								r.ok = true
							} else {
								r.detail = fmt.Sprintf("field %s of %s is tagged json:%q; the contract requires the member %q to be always present (tag exactly %q)", field, ts.Name, tag, member, member)
							}
						}
					}
					if !found {
						r.detail = "no field " + field
					}
				}
				out = append(out, r)
			}
		}
	}
	return out
}
