package main

// SSA -> guarded SMT encoding of one function (plus inlined callees).

import (
	"fmt"
	"go/constant"
	"go/token"
	"go/types"
	"math/big"
	"os"
	"sort"
	"strings"
	"sync"

	"golang.org/x/tools/go/ssa"
)

type seg struct {
	id  int
	anc []uint64
}

func (s *seg) has(id int) bool {
	w := id / 64
	return w < len(s.anc) && s.anc[w]&(1<<(uint(id)%64)) != 0
}

type Assumption struct {
	seg  *seg
	seq  int
	term string
	body string
	what string
	syms map[string]bool
}

type Obligation struct {
	Name     string
	Kind     string
	Tags     []string
	Src      string
	Line     string
	Func     string
	seg      *seg
	seq      int
	goal     string // must hold (already includes the reach guard: reach => P)
	f        *FnCtx
	Res      solverResult
	Query    string
	Cover    bool // vacuity cover: expected sat
	Notes    []string
	replayed bool
	stage    int
	clause   *Clause
}

type FnCtx struct {
	e                *Engine
	fn               *ssa.Function
	spec             *FuncSpec
	c                *Ctx
	hs               *HeapSpace
	assumes          []Assumption
	global           []string
	obls             []*Obligation
	abstr            map[string]int
	exact            map[string]int
	segN             int
	seq              int
	dry              bool
	frameN           int
	loopFrames       map[string]*loopFrame
	sweep            map[string]bool
	sweepTags        []string
	allocN           int
	ifaceUsed        map[string]*types.Interface
	oblNames         map[string]int
	inlineDepth      int
	notes            []string
	closures         map[string]*closureInfo // ref term -> closure
	localAllocs      map[string]bool         // ref literal -> non-escaping local
	entryHeap        *Heap
	errs             []string
	callOrd          map[string]int
	trusted          map[string]bool
	inlined          map[string]bool
	inlineStack      []*ssa.Function
	inlineInLoop     bool
	qn               int
	entryFrame       *frame
	anchors          []*big.Int
	convMemo         map[string]string
	i2fArgs, f2iArgs []string
	forceSweep       bool
	usedSpecs        map[string]bool
	transients       []transientIns
	localChans       []*localChan
	indexTerms       []string
	frameMode        bool
	rangeKeys        map[int]string
	rangeVisKeys     map[int]string
	rangeDom0        map[int]string
	rangeN           int
	mu               sync.Mutex
	addrFacts        map[string]bool
	lastLoadKey      string
	faddrN           int
	lastLockHeap     *Heap           // heap right after the most recent lock acquisition (after modelled interference)
	knownOld         map[string]bool // reference terms known to exist at entry (non-negative)
	dirtyAll         bool            // some havoc may have put this call's allocations into the heap
	dirtyKey         map[string]bool // a fresh reference was stored under this key
}

type closureInfo struct {
	fn   *ssa.Function
	bind []Val
}

type loopFrame struct {
	keys  map[string]map[string]bool // key -> set of object terms ("*" = whole key)
	sorts map[string]string          // sort of each key as registered in the dry pass (a key first used inside the body is not registered yet when the header is reached in the real pass)
	all   bool
	// writerCall: some call in the body may run a declared writer of a type's private fields (otherwise the
	// calls in the body keep private fields, and so does the havoc at the loop head)
	writerCall bool
}

type frame struct {
	f           *FnCtx
	fn          *ssa.Function
	id          int
	vals        map[ssa.Value]Val
	in          map[*ssa.BasicBlock]*bstate
	out         map[*ssa.BasicBlock]*bstate
	edgeCond    map[[2]int]string
	rets        []retState
	defers      []*deferSite
	spec        *FuncSpec
	top         bool
	oldHeap     *Heap
	params      map[string]Val
	loopOrd     map[*ssa.BasicBlock]int
	isHeader    map[*ssa.BasicBlock]bool
	loopBody    map[*ssa.BasicBlock]map[*ssa.BasicBlock]bool
	depth       int
	cur         *bstate // state while executing a block
	headerHeap  map[*ssa.BasicBlock]*Heap
	headerPre   map[*ssa.BasicBlock]*Heap
	escaping    map[*ssa.Alloc]bool
	names       []string
	rangeInfo   map[*ssa.Range][2]string
	rangeVis    map[*ssa.Range][3]string // visited-set ghost key, key set at the start, key sort
	siteOrd     map[string][]ssa.Instruction
	parent      *frame          // the frame this one is inlined into
	parentSite  ssa.Instruction // the call instruction in parent that was inlined
	pendingSite ssa.Instruction
	guardedRefs map[ssa.Value]guardedRef
	aliasLocals map[string]string    // recorded name the function no longer has -> current name of that variable
	aliasVals   map[string]ssa.Value // recorded name whose variable was inlined away -> the value it held
	aliasParams map[string]int
}

type bstate struct {
	reach string
	heap  *Heap
	seg   *seg
}

type retState struct {
	st   *bstate
	vals []Val
}

type deferSite struct {
	instr *ssa.Defer
	armed string // heap key of the armed flag
	seq   int
	args  []Val
}

func newFnCtx(e *Engine, fn *ssa.Function) *FnCtx {
	c := newCtx()
	f := &FnCtx{e: e, fn: fn, c: c, hs: newHeapSpace(c), abstr: map[string]int{}, exact: map[string]int{},
		loopFrames: map[string]*loopFrame{}, sweep: map[string]bool{}, ifaceUsed: map[string]*types.Interface{},
		oblNames: map[string]int{}, closures: map[string]*closureInfo{}, localAllocs: map[string]bool{}, callOrd: map[string]int{}, trusted: map[string]bool{}, inlined: map[string]bool{}, usedSpecs: map[string]bool{}}
	f.spec = e.specFor(fn)
	return f
}

func (f *FnCtx) newSeg(preds ...*seg) *seg {
	f.segN++
	s := &seg{id: f.segN}
	n := f.segN/64 + 1
	s.anc = make([]uint64, n)
	for _, p := range preds {
		for i, w := range p.anc {
			s.anc[i] |= w
		}
		s.anc[p.id/64] |= 1 << (uint(p.id) % 64)
	}
	return s
}

func (f *FnCtx) assume(st *bstate, term, what string) {
	if term == "true" {
		return
	}
	f.seq++
	f.assumes = append(f.assumes, Assumption{seg: st.seg, seq: f.seq, term: implies(st.reach, term), body: term, what: what})
}

func (f *FnCtx) oblige(st *bstate, name, kind string, tags []string, goal, src, line string) *Obligation {
	if f.dry {
		return nil
	}
	name = contractVocabulary(name)
	if f.spec != nil {
		for _, w := range f.spec.Waive {
			if strings.Contains(name, w) {
				f.notes = append(f.notes, "waived (not covered): "+name)
				return nil
			}
		}
	}
	f.seq++
	n := f.oblNames[name]
	f.oblNames[name] = n + 1
	if n > 0 {
		name = fmt.Sprintf("%s#%d", name, n+1)
	}
	o := &Obligation{Name: name, Kind: kind, Tags: tags, Src: src, Line: line, Func: f.fn.String(), seg: st.seg, seq: f.seq,
		goal: implies(st.reach, goal), f: f}
	f.obls = append(f.obls, o)
	return o
}

func (f *FnCtx) fail(format string, args ...interface{}) {
	m := fmt.Sprintf(format, args...)
	for _, e := range f.errs {
		if e == m {
			return
		}
	}
	f.errs = append(f.errs, m)
}

// expandedSyms: registered symbols of a term, closed under definitions, not
// following reach.* symbols (path conditions connect everything).
func (f *FnCtx) expandedSyms(t string, out map[string]bool) {
	var stack []string
	push := func(t string) {
		for _, s := range symbolsOf(t) {
			if sy, ok := f.c.syms[s]; ok && !out[s] {
				out[s] = true
				if !strings.HasPrefix(sy.name, "reach.") {
					stack = append(stack, s)
				}
			}
		}
	}
	push(t)
	for len(stack) > 0 {
		s := stack[len(stack)-1]
		stack = stack[:len(stack)-1]
		for _, d := range f.c.syms[s].deps {
			if sy, ok := f.c.syms[d]; ok && !out[d] {
				out[d] = true
				if !strings.HasPrefix(sy.name, "reach.") {
					stack = append(stack, d)
				}
			}
		}
	}
}

func isGenericSym(s string) bool {
	return s == "i2f" || s == "f2i" || strings.HasPrefix(s, "sl_") || strings.HasPrefix(s, "faddr.") || strings.HasPrefix(s, "eaddr.") ||
		strings.HasPrefix(s, "mlen.") || strings.HasPrefix(s, "impl.") || strings.HasPrefix(s, "sf.") || strings.HasPrefix(s, "pf.") || strings.HasPrefix(s, "bx")
}

// assumptionsFor returns the assumptions on the paths to o.  depth < 0: all of
// them; otherwise only those within `depth` rounds of symbol sharing with the
// goal (dropping hypotheses is sound: it can only lose a proof, never make one).
func (f *FnCtx) assumptionsFor(o *Obligation, depth int) []string {
	var cands []*Assumption
	for i := range f.assumes {
		a := &f.assumes[i]
		if a.seq < o.seq && (a.seg == o.seg || o.seg.has(a.seg.id)) {
			cands = append(cands, a)
		}
	}
	var out []string
	if depth < 0 {
		out = append(out, f.global...)
		for _, a := range cands {
			out = append(out, a.term)
		}
		return out
	}
	S := map[string]bool{}
	f.expandedSyms(o.goal, S)
	// the goal's guard (reach) symbols do not count as interesting
	for s := range S {
		if strings.HasPrefix(s, "reach.") {
			delete(S, s)
		}
	}
	taken := make([]bool, len(cands))
	for round := 0; round <= depth; round++ {
		add := map[string]bool{}
		for i, a := range cands {
			if taken[i] {
				continue
			}
			if a.syms == nil {
				a.syms = map[string]bool{}
				f.expandedSyms(a.body, a.syms)
			}
			hit := false
			for s := range a.syms {
				if S[s] && !isGenericSym(s) {
					hit = true
					break
				}
			}
			if hit {
				taken[i] = true
				for s := range a.syms {
					if !strings.HasPrefix(s, "reach.") {
						add[s] = true
					}
				}
			}
		}
		if len(add) == 0 {
			break
		}
		for s := range add {
			S[s] = true
		}
	}
	for i, a := range cands {
		if taken[i] {
			out = append(out, a.term)
		}
	}
	// also symbols of the guards of what we kept
	cone := map[string]bool{}
	f.expandedSyms(o.goal, cone)
	for _, t := range out {
		f.expandedSyms(t, cone)
	}
	for _, g := range f.global {
		ok := true
		for _, s := range symbolsOf(g) {
			if _, reg := f.c.syms[s]; reg && !cone[s] {
				ok = false
				break
			}
		}
		if ok {
			out = append(out, g)
		}
	}
	return out
}

// ---------------------------------------------------------------------------

func fnShortName(fn *ssa.Function) string {
	s := fn.String()
	s = strings.ReplaceAll(s, modulePath+"/internal/", "")
	s = strings.ReplaceAll(s, modulePath, "mcp")
	return s
}

// translate runs the dry pass (loop frames) then the real pass.
func (f *FnCtx) translate() {
	if len(f.fn.Blocks) == 0 {
		f.fail("function %s has no body", f.fn)
		return
	}
	if f.spec != nil {
		for _, k := range f.spec.Sweep {
			f.sweep[k] = true
		}
		f.sweepTags = f.spec.SweepTags
	}
	if ks := f.e.scopeKinds[f.fn]; len(ks) > 0 {
		for _, k := range ks {
			f.sweep[k] = true
		}
		f.sweepTags = append(f.sweepTags, f.e.curProp)
	}
	if f.spec != nil {
		for _, k := range f.spec.NoSweep {
			delete(f.sweep, k)
			f.notes = append(f.notes, fmt.Sprintf("%s: sweep kind %q switched off by its contract (not covered)", fnShortName(f.fn), k))
		}
	}
	if f.forceSweep && f.sweepTags == nil {
		f.sweepTags = []string{"sweep"}
	}
	for pass := 0; pass < 2; pass++ {
		f.dry = pass == 0
		// reset per-pass state but keep loopFrames
		f.c = newCtx()
		f.hs = newHeapSpace(f.c)
		f.hs.onHavoc = func() { f.dirtyAll = true }
		f.hs.onHavocKey = func(k string) {
			if f.dirtyKey == nil {
				f.dirtyKey = map[string]bool{}
			}
			f.dirtyKey[k] = true
		}
		f.assumes, f.obls, f.global = nil, nil, nil
		f.segN, f.seq, f.frameN, f.allocN = 0, 0, 0, 0
		f.abstr, f.exact = map[string]int{}, map[string]int{}
		f.oblNames = map[string]int{}
		f.closures = map[string]*closureInfo{}
		f.localAllocs = map[string]bool{}
		f.ifaceUsed = map[string]*types.Interface{}
		f.callOrd = map[string]int{}
		if f.spec != nil {
			for _, ba := range f.spec.Before {
				ba.C.used = false
			}
		}
		f.convMemo = nil
		f.indexTerms = nil
		f.addrFacts = nil
		f.faddrN = 0
		f.lastLockHeap = nil
		f.dirtyAll = false
		f.dirtyKey = map[string]bool{}
		f.knownOld = map[string]bool{}
		f.rangeKeys = map[int]string{}
		f.rangeVisKeys = map[int]string{}
		f.rangeDom0 = map[int]string{}
		f.rangeN = 0
		f.i2fArgs, f.f2iArgs = nil, nil
		f.notes = nil
		f.runTop()
	}
	if f.spec != nil {
		for _, ba := range f.spec.Before {
			if f.e.active(ba.C.Tags) && !ba.C.used {
				f.fail("%s: before call %s#%d: no such call site in %s (stale contract)", ba.C.Line, ba.Callee, ba.Ordinal, fnShortName(f.fn))
			}
		}
	}
	f.finishGlobals()
}

func (f *FnCtx) runTop() {
	fn := f.fn
	st := &bstate{reach: "true", heap: f.hs.entry(), seg: f.newSeg()}
	f.entryHeap = st.heap
	var args []Val
	for _, p := range fn.Params {
		v := f.freshVal("p."+p.Name(), p.Type())
		f.assumeTypeRange(st, v)
		f.assumeOldRefs(st, v)
		args = append(args, v)
	}
	var fvs []Val
	for _, fv := range fn.FreeVars {
		v := f.freshVal("fv."+fv.Name(), fv.Type())
		f.assumeTypeRange(st, v)
		fvs = append(fvs, v)
	}
	fr := f.newFrame(fn, args, fvs, true, 0)
	fr.oldHeap = st.heap
	f.entryFrame = fr
	// requires: assumed
	if f.spec != nil {
		env := fr.specEnv(st.heap, st.heap, nil)
		for _, r := range f.spec.Requires {
			if !f.e.active(r.Tags) {
				continue
			}
			v, err := env.evalBool(r.E)
			if err != nil {
				f.fail("%s: requires: %v", r.Line, err)
				continue
			}
			f.assume(st, v, "requires "+r.Src)
			if !f.dry {
				// vacuity cover
				f.seq++
				f.obls = append(f.obls, &Obligation{Name: fnShortName(fn) + "#cover:requires:" + clauseLabel(r), Kind: "cover", Cover: true,
					Tags: r.Tags, Src: r.Src, Line: r.Line, Func: fn.String(), seg: st.seg, seq: f.seq, goal: "true", f: f})
			}
		}
	}
	// lock state at entry: nothing held, except what the contract says the caller holds
	{
		lk := f.ghostKey("lockheld", sortInt, true, sortInt)
		f.hs.final[lk] = true
		arr := "((as const (Array Int Int)) 0)"
		if f.spec != nil {
			env := fr.specEnv(st.heap, st.heap, nil)
			for _, h := range f.spec.Holds {
				a, err := env.evalAddr(h.E)
				if err != nil {
					f.fail("%s: holds: %v", f.spec.Line, err)
					continue
				}
				arr = app("store", arr, a, intLit(int64(h.Mode)))
			}
		}
		f.assume(st, eq(f.hs.read(st.heap, lk), arr), "locks held at entry")
	}
	// type invariants of the receiver: assumed at entry, unless this is a constructor
	fr.assumeTypeInvariants(st)
	fr.sweepPassWriter(st)
	fr.sweepParamsReadOnly(st)
	fr.sweepFreshDecode(st)
	fr.checkContractParamsStable(st)
	fr.sweepGlobalsReadOnly(st)
	fr.sweepCopyLocks(st)
	fr.sweepNoStdout(st)
	fr.sweepLoopClosures(st)
	fr.sweepDeadParamStores(st)
	fr.sweepNoWait(st)
	fr.sweepFramedOutput(st)
	fr.sweepNoSessionData(st)
	ret := fr.run(st)
	if ret == nil {
		return // never returns normally
	}
	// ensures
	if f.spec != nil && !f.spec.Trusted {
		env := fr.specEnv(ret.st.heap, fr.oldHeap, ret.vals)
		for _, c := range f.spec.Ensures {
			if !f.e.active(c.Tags) {
				continue
			}
			v, err := env.evalBool(c.E)
			if err != nil {
				f.fail("%s: ensures: %v", c.Line, err)
				continue
			}
			if o := f.oblige(ret.st, fnShortName(fn)+"#ensures:"+clauseLabel(c), "ensures", c.Tags, v, c.Src, c.Line); o != nil {
				o.clause = c
			}
		}
	}
	fr.checkTypeInvariants(ret.st)
	fr.checkLockBalance(ret.st)
	fr.checkTransients(ret.st)
	fr.checkCtorInvariants(ret)
	fr.checkFrame(ret.st)
}

func clauseLabel(c *Clause) string {
	if c.Name != "" {
		return c.Name
	}
	s := strings.Join(strings.Fields(c.Src), "")
	if len(s) > 60 {
		s = fmt.Sprintf("%s~%x", s[:48], hash32(s))
	}
	return s
}

func (f *FnCtx) newFrame(fn *ssa.Function, args, fvs []Val, top bool, depth int) *frame {
	f.frameN++
	fr := &frame{f: f, fn: fn, id: f.frameN, vals: map[ssa.Value]Val{}, in: map[*ssa.BasicBlock]*bstate{}, out: map[*ssa.BasicBlock]*bstate{},
		edgeCond: map[[2]int]string{}, top: top, params: map[string]Val{}, depth: depth,
		headerHeap: map[*ssa.BasicBlock]*Heap{}, headerPre: map[*ssa.BasicBlock]*Heap{}}
	fr.spec = f.e.specFor(fn)
	for i, p := range fn.Params {
		fr.vals[p] = args[i]
		fr.params[p.Name()] = args[i]
	}
	f.e.bindMu.Lock()
	fr.aliasLocals, fr.aliasParams, fr.aliasVals = f.e.aliasesV(fn)
	f.e.bindMu.Unlock()
	for n, i := range fr.aliasParams {
		fr.params[n] = args[i]
	}
	// positional names: paramK is the K-th parameter whatever it is called (for a method, param0 is the receiver)
	for i := range fn.Params {
		fr.params[fmt.Sprintf("param%d", i)] = args[i]
	}
	for i, fv := range fn.FreeVars {
		fr.vals[fv] = fvs[i]
	}
	fr.analyzeLoops()
	fr.analyzeEscapes()
	return fr
}

// ---------------------------------------------------------------------------
// loops

func (fr *frame) analyzeLoops() {
	fn := fr.fn
	fr.isHeader = map[*ssa.BasicBlock]bool{}
	fr.loopBody = map[*ssa.BasicBlock]map[*ssa.BasicBlock]bool{}
	fr.loopOrd = map[*ssa.BasicBlock]int{}
	for _, b := range fn.Blocks {
		for _, s := range b.Succs {
			if s.Dominates(b) { // back edge b -> s
				fr.isHeader[s] = true
				body := fr.loopBody[s]
				if body == nil {
					body = map[*ssa.BasicBlock]bool{s: true}
					fr.loopBody[s] = body
				}
				// natural loop: nodes that reach b without passing s
				stack := []*ssa.BasicBlock{b}
				for len(stack) > 0 {
					x := stack[len(stack)-1]
					stack = stack[:len(stack)-1]
					if body[x] {
						continue
					}
					body[x] = true
					stack = append(stack, x.Preds...)
				}
			}
		}
	}
	var hs []*ssa.BasicBlock
	for h := range fr.isHeader {
		hs = append(hs, h)
	}
	// source order: position of the loop's first positioned instruction; fall back to index
	pos := func(h *ssa.BasicBlock) token.Pos {
		best := token.NoPos
		for b := range fr.loopBody[h] {
			for _, in := range b.Instrs {
				if _, isPhi := in.(*ssa.Phi); isPhi {
					continue // a phi carries the position of the variable's declaration, which may precede the loop
				}
				if p := in.Pos(); p.IsValid() && (best == token.NoPos || p < best) {
					best = p
				}
			}
		}
		return best
	}
	sort.Slice(hs, func(i, j int) bool {
		pi, pj := pos(hs[i]), pos(hs[j])
		if pi != pj {
			return pi < pj
		}
		return hs[i].Index < hs[j].Index
	})
	for i, h := range hs {
		fr.loopOrd[h] = i + 1
		if os.Getenv("GOVC_LOOPS") != "" && strings.Contains(fn.String(), os.Getenv("GOVC_LOOPS")) {
			fmt.Fprintf(os.Stderr, "loop %d of %s: header block %d (%s) first pos %s\n", i+1, fn.Name(), h.Index, h.Comment, fr.f.e.fset.Position(pos(h)))
		}
	}
}

func isBackEdge(from, to *ssa.BasicBlock) bool { return to.Dominates(from) }

// ---------------------------------------------------------------------------
// escape analysis for Allocs (locals that never leave the function keep
// private heap keys which calls cannot havoc)

func (fr *frame) analyzeEscapes() {
	fr.escaping = map[*ssa.Alloc]bool{}
	for _, b := range fr.fn.Blocks {
		for _, in := range b.Instrs {
			if a, ok := in.(*ssa.Alloc); ok {
				if addrEscapes(a, map[ssa.Value]bool{}) {
					fr.escaping[a] = true
				}
			}
		}
	}
}

func addrEscapes(v ssa.Value, seen map[ssa.Value]bool) bool {
	if seen[v] {
		return false
	}
	seen[v] = true
	refs := v.Referrers()
	if refs == nil {
		return true
	}
	for _, r := range *refs {
		switch x := r.(type) {
		case *ssa.DebugRef:
		case *ssa.Store:
			if x.Val == v {
				return true
			}
		case *ssa.UnOp:
			if x.Op != token.MUL {
				return true
			}
		case *ssa.FieldAddr:
			if addrEscapes(x, seen) {
				return true
			}
		case *ssa.IndexAddr:
			if addrEscapes(x, seen) {
				return true
			}
		case *ssa.Slice:
			// slicing a local array (varargs packing): the slice escapes into calls,
			// but callees treat it read-only in this code base; be conservative.
			return true
		case *ssa.MakeClosure:
			// captured by a closure that is only deferred or called directly, and
			// whose body only loads/stores through the captured cell: stays local
			if closureLeaks(x, v) {
				return true
			}
		default:
			return true
		}
	}
	return false
}

// ---------------------------------------------------------------------------
// running a frame

func (fr *frame) run(entry *bstate) *retState {
	fn := fr.fn
	f := fr.f
	order := rpo(fn)
	fr.in[fn.Blocks[0]] = entry
	for _, b := range order {
		var st *bstate
		if b == fn.Blocks[0] {
			st = entry
		} else {
			st = fr.mergePreds(b)
			if st == nil {
				continue // unreachable
			}
		}
		if fr.isHeader[b] {
			st = fr.loopHeader(b, st)
		}
		fr.in[b] = st
		cur := &bstate{reach: st.reach, heap: st.heap, seg: st.seg}
		fr.cur = cur
		fr.execBlock(b, cur)
		fr.out[b] = fr.cur
		// back edges out of b: check invariants
		for _, s := range b.Succs {
			if isBackEdge(b, s) && fr.out[b] != nil {
				fr.loopBackEdge(b, s)
			}
		}
	}
	_ = f
	return fr.mergeReturns()
}

func rpo(fn *ssa.Function) []*ssa.BasicBlock {
	seen := map[*ssa.BasicBlock]bool{}
	var post []*ssa.BasicBlock
	var dfs func(b *ssa.BasicBlock)
	dfs = func(b *ssa.BasicBlock) {
		seen[b] = true
		for _, s := range b.Succs {
			if !seen[s] && !isBackEdge(b, s) {
				dfs(s)
			}
		}
		post = append(post, b)
	}
	dfs(fn.Blocks[0])
	// also the recover block if any is unreachable from entry: ignore
	for i, j := 0, len(post)-1; i < j; i, j = i+1, j-1 {
		post[i], post[j] = post[j], post[i]
	}
	return post
}

func (fr *frame) edge(from, to *ssa.BasicBlock) string {
	out := fr.out[from]
	if out == nil || out.reach == "false" {
		return "false"
	}
	if len(from.Instrs) == 0 {
		return out.reach
	}
	switch t := from.Instrs[len(from.Instrs)-1].(type) {
	case *ssa.If:
		c := fr.val(t.Cond).Tm
		if from.Succs[0] == to && from.Succs[1] == to {
			return out.reach
		}
		if from.Succs[0] == to {
			return and(out.reach, c)
		}
		return and(out.reach, not(c))
	case *ssa.Jump:
		return out.reach
	}
	return "false"
}

func (fr *frame) mergePreds(b *ssa.BasicBlock) *bstate {
	f := fr.f
	var conds []string
	var heaps []*Heap
	var segs []*seg
	for _, p := range b.Preds {
		if isBackEdge(p, b) {
			continue
		}
		if fr.out[p] == nil {
			continue
		}
		c := fr.edge(p, b)
		if c == "false" {
			continue
		}
		conds = append(conds, c)
		heaps = append(heaps, fr.out[p].heap)
		segs = append(segs, fr.out[p].seg)
	}
	if len(conds) == 0 {
		return nil
	}
	reach := f.c.define(fmt.Sprintf("reach.%d.b%d", fr.id, b.Index), sortBool, or(conds...))
	return &bstate{reach: reach, heap: f.hs.merge(heaps, conds), seg: f.newSeg(segs...)}
}

func (fr *frame) loopKey(h *ssa.BasicBlock) string {
	return fmt.Sprintf("%d.%d", fr.id, h.Index)
}

// reachingDef finds the value of source variable `name` at the entry of block
// h (site == nil) or just before instruction `site`, by walking the dominator
// chain: the last DebugRef of the name in a dominating block, or a phi carrying
// the name.  Returns the ssa value and whether the DebugRef denotes the address
// of the variable's cell.
func (fr *frame) reachingDef(name string, h *ssa.BasicBlock, site ssa.Instruction) (ssa.Value, bool, bool) {
	b := h
	first := true
	for b != nil {
		var found ssa.Value
		isAddr := false
		for _, in := range b.Instrs {
			if first && site != nil && in == site {
				break
			}
			switch x := in.(type) {
			case *ssa.Phi:
				if x.Comment == name {
					found, isAddr = x, false
				}
			case *ssa.DebugRef:
				if first && site == nil {
					continue // header point is before the block's own assignments
				}
				if debugRefName(x) == name {
					found, isAddr = x.X, x.IsAddr
				}
			}
		}
		if found != nil {
			return found, isAddr, true
		}
		first = false
		b = b.Idom()
	}
	return nil, false, false
}

func (fr *frame) localNames() []string {
	if fr.names != nil {
		return fr.names
	}
	seen := map[string]bool{}
	for _, b := range fr.fn.Blocks {
		for _, in := range b.Instrs {
			switch x := in.(type) {
			case *ssa.DebugRef:
				if n := debugRefName(x); n != "" && !seen[n] {
					seen[n] = true
					fr.names = append(fr.names, n)
				}
			case *ssa.Phi:
				if isIdentName(x.Comment) && !seen[x.Comment] {
					seen[x.Comment] = true
					fr.names = append(fr.names, x.Comment)
				}
			}
		}
	}
	if fr.names == nil {
		fr.names = []string{}
	}
	return fr.names
}

// localEnvAt builds the name->value map for loop invariants at header h.
// edgeFrom != nil: header phis are replaced by their incoming value on that edge.
func (fr *frame) localEnvAt(h *ssa.BasicBlock, edgeFrom *ssa.BasicBlock, heap *Heap) map[string]Val {
	env := map[string]Val{}
	for n, v := range fr.params {
		env[n] = v
	}
	for _, name := range fr.localNames() {
		v, isAddr, ok := fr.reachingDef(name, h, nil)
		if !ok {
			continue
		}
		var val Val
		var have bool
		if p, isPhi := v.(*ssa.Phi); isPhi && p.Block() == h && edgeFrom != nil {
			for i, pr := range h.Preds {
				if pr == edgeFrom {
					val, have = fr.valOK(p.Edges[i])
				}
			}
		} else {
			val, have = fr.valOK(v)
		}
		if !have {
			continue
		}
		if isAddr {
			if pt, ok := v.Type().Underlying().(*types.Pointer); ok {
				env[name] = fr.f.load(heap, val, pt.Elem())
				continue
			}
		}
		env[name] = val
	}
	for old, cur := range fr.aliasLocals {
		if v, ok := env[cur]; ok {
			if _, have := env[old]; !have {
				env[old] = v
			}
		}
	}
	for old, v := range fr.aliasVals {
		if _, have := env[old]; !have {
			if val, ok := fr.valOK(v); ok {
				env[old] = val
			}
		}
	}
	// a range-over-slice loop rewritten as `for i := 0; i < n; i++`: invariants written for the range
	// form speak of `rangeindex` (completed iterations - 1); for an index loop that is i - 1
	if _, have := env["rangeindex"]; !have && fr.isHeader[h] {
		var cand *ssa.Phi
		n := 0
		for _, in := range h.Instrs {
			phi, ok := in.(*ssa.Phi)
			if !ok {
				break
			}
			if kindOf(phi.Type()) != KInt || phi.Comment == "rangeindex" {
				continue
			}
			okShape := true
			sawZero := false
			for i, e := range phi.Edges {
				if !fr.loopBody[h][h.Preds[i]] {
					if c, isC := e.(*ssa.Const); isC && c.Value != nil && c.Int64() == 0 {
						sawZero = true
					} else {
						okShape = false
					}
					continue
				}
				o, isOp := e.(*ssa.BinOp)
				if !isOp || o.Op != token.ADD || o.X != ssa.Value(phi) {
					okShape = false
					continue
				}
				if oc, isC := o.Y.(*ssa.Const); !isC || oc.Value == nil || oc.Int64() != 1 {
					okShape = false
				}
			}
			if okShape && sawZero {
				cand = phi
				n++
			}
		}
		if n == 1 {
			var val Val
			var have bool
			if edgeFrom != nil {
				for i, pr := range h.Preds {
					if pr == edgeFrom {
						val, have = fr.valOK(cand.Edges[i])
					}
				}
			} else {
				val, have = fr.valOK(cand)
			}
			if have && val.K == KInt {
				env["rangeindex"] = Val{K: KInt, T: val.T, Tm: app("-", val.Tm, "1")}
			}
		}
	}
	return env
}

func debugRefName(d *ssa.DebugRef) string {
	switch e := d.Expr.(type) {
	case interface{ String() string }:
		s := e.String()
		if isIdentName(s) {
			return s
		}
	}
	return ""
}

func isIdentName(s string) bool {
	if s == "" || s == "_" {
		return false
	}
	for i, r := range s {
		if !(r == '_' || r >= 'a' && r <= 'z' || r >= 'A' && r <= 'Z' || i > 0 && r >= '0' && r <= '9') {
			return false
		}
	}
	return true
}

func (fr *frame) loopSpec(h *ssa.BasicBlock) *LoopSpec {
	if fr.spec == nil {
		return nil
	}
	ls := fr.spec.Loops[fr.loopOrd[h]]
	if ls == nil {
		return nil
	}
	out := &LoopSpec{Ordinal: ls.Ordinal}
	for _, c := range ls.Invariants {
		if fr.f.e.active(c.Tags) {
			out.Invariants = append(out.Invariants, c)
		}
	}
	if ls.Decreases != nil && fr.f.e.active(ls.Decreases.Tags) {
		out.Decreases = ls.Decreases
	}
	for _, c := range ls.Increases {
		if fr.f.e.active(c.Tags) {
			out.Increases = append(out.Increases, c)
		}
	}
	for _, c := range ls.Steps {
		if fr.f.e.active(c.Tags) {
			out.Steps = append(out.Steps, c)
		}
	}
	return out
}

func (fr *frame) loopHeader(h *ssa.BasicBlock, st *bstate) *bstate {
	f := fr.f
	ls := fr.loopSpec(h)
	pre := st.heap
	fr.headerPre[h] = pre
	// 1. invariants on entry (per non-back pred edge we only have the merged state; phis: use merged incoming)
	if ls != nil && !f.dry {
		for _, p := range h.Preds {
			if isBackEdge(p, h) || fr.out[p] == nil {
				continue
			}
			ec := fr.edge(p, h)
			if ec == "false" {
				continue
			}
			est := &bstate{reach: ec, heap: fr.out[p].heap, seg: st.seg}
			envm := fr.localEnvAt(h, p, est.heap)
			env := fr.specEnv(est.heap, fr.oldHeap, nil)
			env.addVars(envm)
			for _, inv := range ls.Invariants {
				v, err := env.evalBool(inv.E)
				if err != nil {
					f.fail("%s: loop %d invariant (entry): %v", inv.Line, fr.loopOrd[h], err)
					continue
				}
				f.oblige(est, fmt.Sprintf("%s#loop%d:entry:%s", fnShortName(fr.fn), fr.loopOrd[h], clauseLabel(inv)), "invariant-entry", inv.Tags, v, inv.Src, inv.Line)
			}
		}
	}
	// 2. havoc: heap frame + phis
	var nh *Heap
	lf := f.loopFrames[fr.loopKey(h)]
	if f.dry || lf == nil || lf.all {
		nh = f.hs.havocAll(pre)
		nh.isLoop = f.dry
		if !f.dry && lf != nil && lf.all {
			// the body calls unknown code: that part of the frame is a call havoc; the body's own writes are havocked on top
			nh.byCall = true
			nh.keepPrivate = !lf.writerCall
			own := map[string]bool{}
			for k := range lf.keys {
				if f.hs.sorts[k] == "" && lf.sorts[k] != "" {
					f.hs.regKey(k, lf.sorts[k])
				}
				if k != "G.lockheld" && f.hs.sorts[k] != "" {
					own[k] = true
				}
			}
			inner := nh
			nh = f.hs.havocKeys(nh, own)
			_ = inner
		}
		if !f.dry && lf != nil && lf.all {
			f.notes = append(f.notes, fmt.Sprintf("loop %d of %s: whole heap havocked (unknown call in body)", fr.loopOrd[h], fnShortName(fr.fn)))
		}
	} else {
		nh = pre
		for _, key := range sortedKeys(lf.keys) {
			objs := lf.keys[key]
			if f.hs.sorts[key] == "" && lf.sorts[key] != "" {
				f.hs.regKey(key, lf.sorts[key])
			}
			srt := f.hs.sorts[key]
			if srt == "" || key == "G.lockheld" {
				continue // lock state: automatic invariant "as at loop entry", checked on every back edge
			}
			if objs["*"] || !strings.HasPrefix(srt, "(Array") {
				ks := map[string]bool{key: true}
				nh = f.hs.havocKeys(nh, ks)
				continue
			}
			// pointwise havoc for loop-invariant objects
			arr := f.hs.read(nh, key)
			elemSort := arrayElemSort(srt)
			ok := true
			for _, o := range sortedKeys(objs) {
				if !f.definedBefore(o, st) {
					ok = false
					break
				}
				arr = app("store", arr, o, f.c.freshConst("lh."+key, elemSort))
			}
			if !ok {
				allFresh := true
				for o := range objs {
					if !(strings.HasPrefix(o, "alloc!") || strings.HasPrefix(o, "(- ")) {
						allFresh = false
					}
				}
				if allFresh {
					// only objects allocated by this call are written: every pre-existing (non-negative) object keeps its value
					old := f.hs.read(nh, key)
					nv := f.c.freshConst("lhf."+key, srt)
					nh = f.hs.write(nh, key, nv)
					nh.obj = "*loop*"
					f.global = append(f.global, fmt.Sprintf("(forall ((o Int)) (=> (>= o 0) (= (select %s o) (select %s o))))", nv, old))
					continue
				}
				nh = f.hs.havocKeys(nh, map[string]bool{key: true})
				continue
			}
			nh = f.hs.write(nh, key, f.c.define("Hl."+key, srt, arr))
			nh.obj = "*loop*"
		}
	}
	nst := &bstate{reach: st.reach, heap: nh, seg: st.seg}
	fr.headerHeap[h] = nh
	for _, in := range h.Instrs {
		p, ok := in.(*ssa.Phi)
		if !ok {
			break
		}
		v := f.freshVal(fmt.Sprintf("phi.%s", p.Name()), p.Type())
		f.assumeTypeRange(nst, v)
		fr.vals[p] = v
		for _, e := range p.Edges {
			fr.guardedRefHandedOn(e, nst, "kept in a variable", p.Pos())
			if gr, ok := fr.guardedRefs[e]; ok {
				fr.guardedRefs[p] = gr
			}
		}
	}
	// 3a. type invariants of the parameters are loop invariants too (checked on every back edge)
	if fr.top && !(fr.spec != nil && fr.spec.Helper) {
		fr.loopTypeInvariants(h, nst, nil)
	}
	// 3. assume invariants
	if ls != nil {
		envm := fr.localEnvAt(h, nil, nh)
		env := fr.specEnv(nh, fr.oldHeap, nil)
		env.addVars(envm)
		for _, inv := range ls.Invariants {
			v, err := env.evalBool(inv.E)
			if err != nil {
				f.fail("%s: loop %d invariant (header): %v", inv.Line, fr.loopOrd[h], err)
				continue
			}
			f.assume(nst, v, "loop invariant "+inv.Src)
		}
		if len(ls.Invariants) > 0 && !f.dry {
			f.seq++
			f.obls = append(f.obls, &Obligation{Name: fmt.Sprintf("%s#cover:loop%d", fnShortName(fr.fn), fr.loopOrd[h]), Kind: "cover", Cover: true,
				Tags: ls.Invariants[0].Tags, Src: "loop invariants satisfiable", Line: ls.Invariants[0].Line, Func: fr.fn.String(), seg: nst.seg, seq: f.seq, goal: nst.reach, f: f})
		}
	}
	return nst
}

func arrayElemSort(s string) string {
	// "(Array Int X)" -> X
	s = strings.TrimPrefix(s, "(Array ")
	s = strings.TrimSuffix(s, ")")
	// skip index sort
	d := 0
	for i := 0; i < len(s); i++ {
		switch s[i] {
		case '(':
			d++
		case ')':
			d--
		case ' ':
			if d == 0 {
				return s[i+1:]
			}
		}
	}
	return s
}

// definedBefore: every symbol of term t was created before the loop header state st was formed.
// We approximate with: t is a literal, a parameter, or an allocation literal.
func (f *FnCtx) definedBefore(t string, st *bstate) bool {
	if t == "" {
		return false
	}
	for _, s := range symbolsOf(t) {
		if sy, ok := f.c.syms[s]; ok {
			if !strings.HasPrefix(sy.name, "p.") && !strings.HasPrefix(sy.name, "fv.") && !strings.HasPrefix(sy.name, "faddr.") && !strings.HasPrefix(sy.name, "gv.") {
				return false
			}
			continue
		}
		// not (yet) a symbol of this pass: only literals and operators are fine
		if s == "-" || s == "+" || (s[0] >= '0' && s[0] <= '9') {
			continue
		}
		return false
	}
	return true
}

func (fr *frame) loopBackEdge(from, h *ssa.BasicBlock) {
	f := fr.f
	ec := fr.edge(from, h)
	if ec == "false" {
		return
	}
	out := fr.out[from]
	// record frame (dry pass)
	if f.dry {
		lf := f.loopFrames[fr.loopKey(h)]
		if lf == nil {
			lf = &loopFrame{keys: map[string]map[string]bool{}}
			f.loopFrames[fr.loopKey(h)] = lf
		}
		collectWrites(f, out.heap, fr.headerHeap[h], lf, map[*Heap]bool{})
		// make the header's havoc node carry the set so enclosing loops see it
		if hh := fr.headerHeap[h]; hh != nil {
			hh.loopSet = lf
		}
		return
	}
	if lk := "G.lockheld"; f.hs.sorts[lk] != "" && fr.headerHeap[h] != nil {
		b, a := f.hs.read(fr.headerHeap[h], lk), f.hs.read(out.heap, lk)
		if a != b {
			f.oblige(&bstate{reach: ec, heap: out.heap, seg: out.seg}, fmt.Sprintf("%s#loop%d:lock-balance", fnShortName(fr.fn), fr.loopOrd[h]), "lock-balance",
				[]string{"C06", "C09", "C12", "C20"}, eq(a, b), "locks held at the end of an iteration are those held at its start", posStr(f.e.fset, fr.fn.Pos()))
		}
	}
	if fr.top && !(fr.spec != nil && fr.spec.Helper) {
		fr.loopTypeInvariants(h, &bstate{reach: ec, heap: out.heap, seg: out.seg}, from)
	}
	ls := fr.loopSpec(h)
	if ls == nil {
		return
	}
	est := &bstate{reach: ec, heap: out.heap, seg: out.seg}
	envm := fr.localEnvAt(h, from, out.heap)
	env := fr.specEnv(out.heap, fr.oldHeap, nil)
	env.addVars(envm)
	for _, inv := range ls.Invariants {
		v, err := env.evalBool(inv.E)
		if err != nil {
			f.fail("%s: loop %d invariant (back edge): %v", inv.Line, fr.loopOrd[h], err)
			continue
		}
		f.oblige(est, fmt.Sprintf("%s#loop%d:preserved:%s", fnShortName(fr.fn), fr.loopOrd[h], clauseLabel(inv)), "invariant-preserved", inv.Tags, v, inv.Src, inv.Line)
	}
	for _, stp := range ls.Steps {
		envH := fr.specEnv(fr.headerHeap[h], fr.oldHeap, nil)
		envH.addVars(fr.localEnvAt(h, nil, fr.headerHeap[h]))
		env.headEnv = envH
		v, err := env.evalBool(stp.E)
		env.headEnv = nil
		if err != nil {
			f.fail("%s: loop %d step: %v", stp.Line, fr.loopOrd[h], err)
			continue
		}
		f.oblige(est, fmt.Sprintf("%s#loop%d:step:%s", fnShortName(fr.fn), fr.loopOrd[h], clauseLabel(stp)), "loop-step", stp.Tags, v, stp.Src, stp.Line)
	}
	for _, inc := range ls.Increases {
		envH := fr.specEnv(fr.headerHeap[h], fr.oldHeap, nil)
		envH.addVars(fr.localEnvAt(h, nil, fr.headerHeap[h]))
		m0, err0 := envH.eval(inc.E)
		m1, err1 := env.eval(inc.E)
		if err0 != nil || err1 != nil {
			f.fail("%s: increases: %v %v", inc.Line, err0, err1)
			continue
		}
		f.oblige(est, fmt.Sprintf("%s#loop%d:progress:%s", fnShortName(fr.fn), fr.loopOrd[h], clauseLabel(inc)), "progress", inc.Tags, app(">", m1.Tm, m0.Tm), inc.Src, inc.Line)
	}
	if ls.Decreases != nil {
		// measure at header vs at back edge
		envH := fr.specEnv(fr.headerHeap[h], fr.oldHeap, nil)
		envH.addVars(fr.localEnvAt(h, nil, fr.headerHeap[h]))
		m0, err0 := envH.eval(ls.Decreases.E)
		m1, err1 := env.eval(ls.Decreases.E)
		if err0 != nil || err1 != nil {
			f.fail("%s: decreases: %v %v", ls.Decreases.Line, err0, err1)
		} else {
			goal := and(app("<", m1.Tm, m0.Tm), app(">=", m0.Tm, "0"))
			f.oblige(est, fmt.Sprintf("%s#loop%d:decreases", fnShortName(fr.fn), fr.loopOrd[h]), "decreases", ls.Decreases.Tags, goal, ls.Decreases.Src, ls.Decreases.Line)
		}
	}
}

func collectWrites(f *FnCtx, h, stop *Heap, lf *loopFrame, seen map[*Heap]bool) {
	for h != nil && h != stop && !seen[h] {
		seen[h] = true
		add := func(key, obj string) {
			m := lf.keys[key]
			if m == nil {
				m = map[string]bool{}
				lf.keys[key] = m
			}
			if lf.sorts == nil {
				lf.sorts = map[string]string{}
			}
			if srt := f.hs.sorts[key]; srt != "" {
				lf.sorts[key] = srt
			}
			if obj == "" {
				obj = "*"
			}
			m[obj] = true
		}
		switch h.kind {
		case "write":
			if f.frameMode && h.interf {
				add(h.key, "interf:"+h.obj)
			} else {
				add(h.key, h.obj)
			}
			h = h.parent
		case "havocSome":
			for k := range h.keys {
				add(k, "*")
			}
			h = h.parent
		case "havoc":
			if h.loopSet != nil {
				// inner loop header: contributes its own frame
				if h.loopSet.all {
					lf.all = true
				}
				if h.loopSet.writerCall {
					lf.writerCall = true
				}
				for k, m := range h.loopSet.keys {
					for o := range m {
						add(k, o)
					}
				}
			} else if h.isLoop {
				// inner loop whose back edge was never reached: nothing
			} else {
				lf.all = true
				if !h.keepPrivate {
					lf.writerCall = true
				}
			}
			h = h.parent
		case "merge":
			for _, p := range h.preds {
				collectWrites(f, p, stop, lf, seen)
			}
			return
		default:
			return
		}
	}
}

func (fr *frame) mergeReturns() *retState {
	f := fr.f
	if len(fr.rets) == 0 {
		return nil
	}
	if len(fr.rets) == 1 {
		return &fr.rets[0]
	}
	var conds []string
	var heaps []*Heap
	var segs []*seg
	for _, r := range fr.rets {
		conds = append(conds, r.st.reach)
		heaps = append(heaps, r.st.heap)
		segs = append(segs, r.st.seg)
	}
	reach := f.c.define(fmt.Sprintf("reach.%d.ret", fr.id), sortBool, or(conds...))
	st := &bstate{reach: reach, heap: f.hs.merge(heaps, conds), seg: f.newSeg(segs...)}
	n := len(fr.rets[0].vals)
	vals := make([]Val, n)
	for i := 0; i < n; i++ {
		v := fr.rets[len(fr.rets)-1].vals[i]
		for j := len(fr.rets) - 2; j >= 0; j-- {
			v = f.iteVal(conds[j], fr.rets[j].vals[i], v)
		}
		vals[i] = f.nameVal(fmt.Sprintf("ret%d", i), v)
	}
	return &retState{st: st, vals: vals}
}

// ---------------------------------------------------------------------------
// value helpers

func (f *FnCtx) freshVal(base string, t types.Type) Val {
	k := kindOf(t)
	switch k {
	case KStruct:
		st := t.Underlying().(*types.Struct)
		v := Val{K: KStruct, T: t}
		for i := 0; i < st.NumFields(); i++ {
			v.Fs = append(v.Fs, f.freshVal(base+"."+st.Field(i).Name(), st.Field(i).Type()))
		}
		return v
	case KTuple:
		tp := t.(*types.Tuple)
		v := Val{K: KTuple, T: t}
		for i := 0; i < tp.Len(); i++ {
			v.Fs = append(v.Fs, f.freshVal(fmt.Sprintf("%s.%d", base, i), tp.At(i).Type()))
		}
		return v
	case KUnit:
		return Val{K: KUnit}
	}
	return Val{K: k, T: t, Tm: f.c.freshConst(base, kindSort(k))}
}

func (f *FnCtx) nameVal(base string, v Val) Val {
	switch v.K {
	case KStruct, KTuple:
		out := v
		out.Fs = make([]Val, len(v.Fs))
		for i, x := range v.Fs {
			out.Fs[i] = f.nameVal(fmt.Sprintf("%s.%d", base, i), x)
		}
		return out
	case KAddr, KUnit:
		return v
	}
	v.Tm = f.c.define(base, kindSort(v.K), v.Tm)
	return v
}

func (f *FnCtx) iteVal(c string, a, b Val) Val {
	switch a.K {
	case KStruct, KTuple:
		out := a
		out.Fs = make([]Val, len(a.Fs))
		for i := range a.Fs {
			out.Fs[i] = f.iteVal(c, a.Fs[i], b.Fs[i])
		}
		return out
	case KUnit:
		return a
	case KAddr:
		if b.K == KAddr && a.A.Key == b.A.Key {
			na := *a.A
			na.Obj = ite(c, a.A.Obj, b.A.Obj)
			if a.A.Idx != "" {
				na.Idx = ite(c, a.A.Idx, b.A.Idx)
			}
			return Val{K: KAddr, T: a.T, A: &na}
		}
		f.abstr["phi-of-addresses"]++
		return a
	}
	out := a
	out.Tm = ite(c, a.Tm, b.Tm)
	return out
}

func intRange(t types.Type) (lo, hi string, ok bool) {
	b, isB := t.Underlying().(*types.Basic)
	if !isB {
		return
	}
	switch b.Kind() {
	case types.Int, types.Int64:
		return "(- 9223372036854775808)", "9223372036854775807", true
	case types.Int32:
		return "(- 2147483648)", "2147483647", true
	case types.Int16:
		return "(- 32768)", "32767", true
	case types.Int8:
		return "(- 128)", "127", true
	case types.Uint, types.Uint64, types.Uintptr:
		return "0", "18446744073709551615", true
	case types.Uint32:
		return "0", "4294967295", true
	case types.Uint16:
		return "0", "65535", true
	case types.Uint8:
		return "0", "255", true
	}
	return
}

func (f *FnCtx) typeRangeTerm(v Val) string {
	switch v.K {
	case KInt:
		if lo, hi, ok := intRange(v.T); ok {
			return and(app("<=", lo, v.Tm), app("<=", v.Tm, hi))
		}
	case KStruct, KTuple:
		var ts []string
		for _, x := range v.Fs {
			ts = append(ts, f.typeRangeTerm(x))
		}
		return and(ts...)
	}
	return "true"
}

func (f *FnCtx) assumeTypeRange(st *bstate, v Val) {
	if t := f.typeRangeTerm(v); t != "true" {
		f.assume(st, t, "type range")
	}
}

func (f *FnCtx) zeroVal(t types.Type) Val {
	k := kindOf(t)
	switch k {
	case KBool:
		return Val{K: k, T: t, Tm: "false"}
	case KInt, KRef:
		return Val{K: k, T: t, Tm: "0"}
	case KFloat:
		return Val{K: k, T: t, Tm: "(_ +zero 11 53)"}
	case KString:
		return Val{K: k, T: t, Tm: `""`}
	case KAny:
		return Val{K: k, T: t, Tm: "any_nil"}
	case KStruct:
		st := t.Underlying().(*types.Struct)
		v := Val{K: KStruct, T: t}
		for i := 0; i < st.NumFields(); i++ {
			v.Fs = append(v.Fs, f.zeroVal(st.Field(i).Type()))
		}
		return v
	case KTuple:
		tp := t.(*types.Tuple)
		v := Val{K: KTuple, T: t}
		for i := 0; i < tp.Len(); i++ {
			v.Fs = append(v.Fs, f.zeroVal(tp.At(i).Type()))
		}
		return v
	}
	return Val{K: KUnit}
}

func (f *FnCtx) eqVal(a, b Val) string {
	switch a.K {
	case KStruct, KTuple:
		if len(a.Fs) != len(b.Fs) {
			return "false"
		}
		var ts []string
		for i := range a.Fs {
			ts = append(ts, f.eqVal(a.Fs[i], b.Fs[i]))
		}
		return and(ts...)
	case KFloat:
		return app("fp.eq", a.Tm, b.Tm)
	case KUnit:
		return "true"
	case KAddr:
		if b.K == KAddr && a.A.Key == b.A.Key {
			return and(eq(a.A.Obj, b.A.Obj), eq(a.A.Idx, b.A.Idx))
		}
		return f.c.freshConst("addrcmp", sortBool)
	}
	if a.K != b.K {
		// ref vs any-nil comparisons etc.
		if a.K == KAny && b.K == KRef && b.Tm == "0" {
			return eq(a.Tm, "any_nil")
		}
		if b.K == KAny && a.K == KRef && a.Tm == "0" {
			return eq(b.Tm, "any_nil")
		}
		return f.c.freshConst("mixedcmp", sortBool)
	}
	return eq(a.Tm, b.Tm)
}

// structural identity (used for spec-level == on floats inside structs: bitwise equality semantics "same value")
func (f *FnCtx) sameVal(a, b Val) string {
	switch a.K {
	case KStruct, KTuple:
		var ts []string
		for i := range a.Fs {
			ts = append(ts, f.sameVal(a.Fs[i], b.Fs[i]))
		}
		return and(ts...)
	case KUnit:
		return "true"
	}
	return eq(a.Tm, b.Tm)
}

// ---------------------------------------------------------------------------
// heap keys and memory access

func structKey(t types.Type) string {
	if n, ok := t.(*types.Named); ok {
		p := ""
		if n.Obj().Pkg() != nil {
			p = n.Obj().Pkg().Name() + "."
		}
		s := p + n.Obj().Name()
		if n.TypeArgs() != nil && n.TypeArgs().Len() > 0 {
			s += "." + typeKey(n.TypeArgs().At(0))
		}
		return sanitize(s)
	}
	if a, ok := t.(*types.Alias); ok {
		return structKey(types.Unalias(a))
	}
	return typeKey(t)
}

// fieldKey returns the heap key for field i of struct type t on object obj.
func (f *FnCtx) fieldKey(obj string, t types.Type, i int) string {
	st := t.Underlying().(*types.Struct)
	fld := st.Field(i)
	key := "F." + structKey(t) + "." + fld.Name()
	if f.localAllocs[obj] {
		key = "L" + sanitize(obj) + "." + key
	}
	srt := "(Array Int " + sortOfType(fld.Type()) + ")"
	if _, ok := f.hs.sorts[key]; !ok {
		f.hs.regKey(key, srt)
		if f.localAllocs[obj] {
			f.hs.final[key] = true
		} else if ts := f.e.typeSpecOf(t); ts != nil {
			// inside a constructor / init function of the type its final fields are still being written,
			// possibly by option closures the function is handed: there they get no protection from call havoc
			building := false
			if f.fn != nil {
				root := f.fn
				for root.Parent() != nil {
					root = root.Parent()
				}
				for _, n := range append(append([]string{}, ts.Ctors...), ts.Inits...) {
					if root.Name() == n || strings.HasSuffix(n, "*") && strings.HasPrefix(root.Name(), strings.TrimSuffix(n, "*")) {
						building = true
					}
				}
			}
			for _, fn := range ts.Final {
				if fn == fld.Name() && !building {
					f.hs.final[key] = true
				}
			}
			for _, pd := range ts.Private {
				for _, fn := range pd.Fields {
					if fn == fld.Name() {
						f.hs.private[key] = true
					}
				}
			}
		}
	}
	return key
}

func (f *FnCtx) cellKey(obj string, t types.Type) string {
	key := "C." + typeKey(t)
	if f.localAllocs[obj] {
		key = "L" + sanitize(obj) + "." + key
	}
	if _, ok := f.hs.sorts[key]; !ok {
		f.hs.regKey(key, "(Array Int "+sortOfType(t)+")")
		if f.localAllocs[obj] {
			f.hs.final[key] = true
		}
	}
	return key
}

func (f *FnCtx) elemKey(base string, t types.Type) string {
	key := "E." + typeKey(t)
	if f.localAllocs[base] {
		key = "L" + sanitize(base) + "." + key
	}
	if _, ok := f.hs.sorts[key]; !ok {
		f.hs.regKey(key, "(Array Int (Array Int "+sortOfType(t)+"))")
		if f.localAllocs[base] {
			f.hs.final[key] = true
		}
	}
	return key
}

func (f *FnCtx) faddr(obj string, t types.Type, i int) string {
	st := t.Underlying().(*types.Struct)
	name := "faddr." + structKey(t) + "." + st.Field(i).Name()
	if _, ok := f.c.syms[name]; !ok {
		// interior addresses are arithmetic: injective, pairwise disjoint between
		// different fields, negative exactly for objects allocated by this call
		f.faddrN++
		f.c.defineFun(name, []string{"x"}, []string{sortInt}, sortInt, fmt.Sprintf("(+ (* 4096 x) %d)", f.faddrN%4095+1), false)
	}
	r := app(name, obj)
	if f.localAllocs[obj] {
		f.localAllocs[r] = true
	}
	return r
}

// addrFact: interior addresses of objects allocated by this call are themselves
// outside the caller's view (negative), those of pre-existing objects are not.
func (f *FnCtx) addrFact(r, obj string) {
	if f.addrFacts == nil {
		f.addrFacts = map[string]bool{}
	}
	if f.addrFacts[r] {
		return
	}
	f.addrFacts[r] = true
	f.global = append(f.global, eq(app("<", obj, "0"), app("<", r, "0")))
}

func (f *FnCtx) eaddr(base, idx string, t types.Type) string {
	name := "eaddr." + structKey(t)
	f.c.declFun(name, []string{sortInt, sortInt}, sortInt)
	r := app(name, base, idx)
	f.addrFact(r, base)
	return r
}

// load reads a value of type t at pointer value p.
func (f *FnCtx) load(h *Heap, p Val, t types.Type) Val {
	k := kindOf(t)
	f.lastLoadKey = ""
	if p.K == KAddr {
		a := p.A
		arr := f.hs.read(h, a.Key)
		f.lastLoadKey = a.Key
		if a.Idx != "" {
			return Val{K: k, T: t, Tm: app("select", app("select", arr, a.Obj), a.Idx)}
		}
		return Val{K: k, T: t, Tm: app("select", arr, a.Obj)}
	}
	if p.K != KRef {
		f.abstr["load-through-nonref"]++
		return f.freshVal("ld", t)
	}
	switch k {
	case KStruct:
		st := t.Underlying().(*types.Struct)
		v := Val{K: KStruct, T: t}
		for i := 0; i < st.NumFields(); i++ {
			ft := st.Field(i).Type()
			if kindOf(ft) == KStruct {
				v.Fs = append(v.Fs, f.load(h, Val{K: KRef, T: types.NewPointer(ft), Tm: f.faddr(p.Tm, t, i)}, ft))
			} else if _, isArr := ft.Underlying().(*types.Array); isArr {
				v.Fs = append(v.Fs, Val{K: KRef, T: ft, Tm: f.faddr(p.Tm, t, i)})
			} else {
				key := f.fieldKey(p.Tm, t, i)
				v.Fs = append(v.Fs, Val{K: kindOf(ft), T: ft, Tm: app("select", f.hs.read(h, key), p.Tm)})
			}
		}
		return v
	case KUnit, KTuple:
		return Val{K: KUnit}
	}
	if _, isArr := t.Underlying().(*types.Array); isArr {
		return Val{K: KRef, T: t, Tm: p.Tm}
	}
	key := f.cellKey(p.Tm, t)
	f.lastLoadKey = key
	return Val{K: k, T: t, Tm: app("select", f.hs.read(h, key), p.Tm)}
}

func isFreshRefTerm(t string) bool {
	return strings.HasPrefix(t, "(- ") || strings.HasPrefix(t, "alloc!") || strings.HasPrefix(t, "slice!") || strings.Contains(t, "alloc!") || strings.Contains(t, "(- 40") || strings.Contains(t, "slice!")
}

// store writes v (of type t) at pointer value p; returns the new heap.
func (f *FnCtx) store(h *Heap, p Val, t types.Type, v Val) *Heap {
	if f.dirtyKey == nil {
		f.dirtyKey = map[string]bool{}
	}
	if p.K == KAddr {
		a := p.A
		if v.K == KRef || v.K == KAny {
			if v.Tm != "0" && v.Tm != "any_nil" && !f.knownOld[v.Tm] {
				f.dirtyKey[a.Key] = true
			}
		}
		arr := f.hs.read(h, a.Key)
		var na string
		if a.Idx != "" {
			na = app("store", arr, a.Obj, app("store", app("select", arr, a.Obj), a.Idx, v.Tm))
		} else {
			na = app("store", arr, a.Obj, v.Tm)
		}
		nh := f.hs.write(h, a.Key, f.c.define("Hw."+a.Key, f.hs.sorts[a.Key], na))
		nh.obj = a.Obj
		return nh
	}
	if p.K != KRef {
		f.abstr["store-through-nonref"]++
		return f.hs.havocAll(h)
	}
	switch kindOf(t) {
	case KStruct:
		st := t.Underlying().(*types.Struct)
		for i := 0; i < st.NumFields(); i++ {
			ft := st.Field(i).Type()
			if i >= len(v.Fs) {
				break
			}
			if kindOf(ft) == KStruct {
				h = f.store(h, Val{K: KRef, T: types.NewPointer(ft), Tm: f.faddr(p.Tm, t, i)}, ft, v.Fs[i])
			} else if _, isArr := ft.Underlying().(*types.Array); isArr {
				// arrays inside structs: not copied
				f.abstr["store-array-field"]++
			} else {
				key := f.fieldKey(p.Tm, t, i)
				if fv := v.Fs[i]; (fv.K == KRef || fv.K == KAny) && fv.Tm != "0" && fv.Tm != "any_nil" && !f.knownOld[fv.Tm] {
					f.dirtyKey[key] = true
				}
				arr := f.hs.read(h, key)
				nh := f.hs.write(h, key, f.c.define("Hw."+key, f.hs.sorts[key], app("store", arr, p.Tm, v.Fs[i].Tm)))
				nh.obj = p.Tm
				h = nh
			}
		}
		return h
	case KUnit, KTuple:
		return h
	}
	if _, isArr := t.Underlying().(*types.Array); isArr {
		f.abstr["store-array"]++
		return h
	}
	key := f.cellKey(p.Tm, t)
	if (v.K == KRef || v.K == KAny) && v.Tm != "0" && v.Tm != "any_nil" && !f.knownOld[v.Tm] {
		f.dirtyKey[key] = true
	}
	arr := f.hs.read(h, key)
	nh := f.hs.write(h, key, f.c.define("Hw."+key, f.hs.sorts[key], app("store", arr, p.Tm, v.Tm)))
	nh.obj = p.Tm
	return nh
}

// ---------------------------------------------------------------------------
// maps and slices

func (f *FnCtx) mapKeys(mt *types.Map) (valKey, domKey string, ok bool) {
	ks, vs := sortOfType(mt.Key()), sortOfType(mt.Elem())
	if !isScalarKind(kindOf(mt.Key())) {
		return "", "", false
	}
	vk := kindOf(mt.Elem())
	name := typeKey(mt.Key()) + "." + typeKey(mt.Elem())
	domKey = "D." + name
	if _, ok := f.hs.sorts[domKey]; !ok {
		f.hs.regKey(domKey, "(Array Int (Array "+ks+" Bool))")
	}
	if !isScalarKind(vk) {
		return "", domKey, false
	}
	valKey = "M." + name
	if _, ok := f.hs.sorts[valKey]; !ok {
		f.hs.regKey(valKey, "(Array Int (Array "+ks+" "+vs+"))")
	}
	return valKey, domKey, true
}

func (f *FnCtx) slFn(name string) string {
	if _, ok := f.c.syms[name]; !ok {
		f.c.declFun(name, []string{sortInt}, sortInt)
		if name == "sl_len" {
			f.global = append(f.global, "(= (sl_len 0) 0)")
			// a slice header, wherever it was loaded from, has a non-negative length
			f.global = append(f.global, "(forall ((x Int)) (! (and (>= (sl_len x) 0) (<= (sl_len x) 9223372036854775807)) :pattern ((sl_len x))))")
		}
	}
	return name
}

func (f *FnCtx) sliceLen(s string) string  { return app(f.slFn("sl_len"), s) }
func (f *FnCtx) sliceBase(s string) string { return app(f.slFn("sl_base"), s) }
func (f *FnCtx) sliceOff(s string) string  { return app(f.slFn("sl_off"), s) }
func (f *FnCtx) sliceCap(s string) string  { return app(f.slFn("sl_cap"), s) }

// newSlice makes a fresh slice value with the given base/off/len.
func (f *FnCtx) newSlice(st *bstate, t types.Type, base, off, ln string) Val {
	s := f.c.freshConst("slice", sortInt)
	f.assume(st, and(eq(f.sliceBase(s), base), eq(f.sliceOff(s), off), eq(f.sliceLen(s), ln), app(">=", f.sliceCap(s), ln), app("<", s, "0")), "slice construction (a slice header made by this call is a fresh reference)")
	return Val{K: KRef, T: t, Tm: s}
}

func (f *FnCtx) newAllocRef(inLoop bool) string {
	f.allocN++
	if !inLoop {
		return intLit(-int64(4096 + f.allocN))
	}
	a := f.c.freshConst("alloc", sortInt)
	f.global = append(f.global, and(app("<", a, "0"), eq(app("mod", app("-", a), "4096"), intLit(int64(f.allocN%4096)))))
	return a
}

// ---------------------------------------------------------------------------
// interface values

func anyCtorFor(k Kind) (ctor, tagSel, valSel string) {
	switch k {
	case KBool:
		return "any_bool", "tg_b", "vl_b"
	case KInt:
		return "any_int", "tg_i", "vl_i"
	case KString:
		return "any_str", "tg_s", "vl_s"
	case KFloat:
		return "any_float", "tg_f", "vl_f"
	}
	return "any_ref", "tg_r", "vl_r"
}

func (f *FnCtx) boxKeyFn(t types.Type, i int) string {
	st := t.Underlying().(*types.Struct)
	name := "bx." + structKey(t) + "." + st.Field(i).Name()
	f.c.declFun(name, []string{sortInt}, sortOfType(st.Field(i).Type()))
	return name
}

// makeIface boxes v (static type t) into an Any.
func (f *FnCtx) makeIface(st *bstate, v Val, t types.Type) Val {
	it := types.NewInterfaceType(nil, nil)
	if v.K == KAny {
		return v
	}
	tag := intLit(int64(f.e.tags.tag(t)))
	switch v.K {
	case KStruct:
		if stt, ok := t.Underlying().(*types.Struct); ok && stt.NumFields() == 0 {
			// all values of a field-less struct type are equal (context keys): one canonical box
			return Val{K: KAny, T: it, Tm: app("any_ref", tag, "0")}
		}
		r := f.c.freshConst("box", sortInt)
		f.assumeBoxed(st, r, v, t)
		return Val{K: KAny, T: it, Tm: app("any_ref", tag, r)}
	case KBool, KInt, KString, KFloat, KRef:
		ctor, _, _ := anyCtorFor(v.K)
		return Val{K: KAny, T: it, Tm: app(ctor, tag, v.Tm)}
	}
	f.abstr["makeinterface-"+fmt.Sprint(v.K)]++
	return f.freshVal("iface", it)
}

func (f *FnCtx) assumeBoxed(st *bstate, r string, v Val, t types.Type) {
	stt := t.Underlying().(*types.Struct)
	for i := 0; i < stt.NumFields(); i++ {
		ft := stt.Field(i).Type()
		if kindOf(ft) == KStruct {
			name := "bxs." + structKey(t) + "." + stt.Field(i).Name()
			f.c.declFun(name, []string{sortInt}, sortInt)
			f.assumeBoxed(st, app(name, r), v.Fs[i], ft)
		} else if isScalarKind(kindOf(ft)) {
			f.assume(st, eq(app(f.boxKeyFn(t, i), r), v.Fs[i].Tm), "boxed struct field")
		}
	}
}

func (f *FnCtx) unboxStruct(r string, t types.Type) Val {
	stt := t.Underlying().(*types.Struct)
	v := Val{K: KStruct, T: t}
	for i := 0; i < stt.NumFields(); i++ {
		ft := stt.Field(i).Type()
		if kindOf(ft) == KStruct {
			name := "bxs." + structKey(t) + "." + stt.Field(i).Name()
			f.c.declFun(name, []string{sortInt}, sortInt)
			v.Fs = append(v.Fs, f.unboxStruct(app(name, r), ft))
		} else if isScalarKind(kindOf(ft)) {
			v.Fs = append(v.Fs, Val{K: kindOf(ft), T: ft, Tm: app(f.boxKeyFn(t, i), r)})
		} else {
			v.Fs = append(v.Fs, f.zeroVal(ft))
		}
	}
	return v
}

// typeTest returns (ok term, payload value) for x.(t).
func (f *FnCtx) typeTest(x Val, t types.Type) (string, Val) {
	if x.K != KAny {
		f.abstr["typeassert-on-nonany"]++
		return f.c.freshConst("ta.ok", sortBool), f.freshVal("ta.v", t)
	}
	if it, ok := t.Underlying().(*types.Interface); ok {
		if it.NumMethods() == 0 {
			return not(eq(x.Tm, "any_nil")), Val{K: KAny, T: t, Tm: x.Tm}
		}
		if x.T != nil {
			if xi, ok := x.T.Underlying().(*types.Interface); ok && types.Implements(x.T, it) && xi.NumMethods() > 0 {
				return not(eq(x.Tm, "any_nil")), Val{K: KAny, T: t, Tm: x.Tm}
			}
		}
		name := "impl." + typeKey(t)
		f.c.declFun(name, []string{sortInt}, sortBool)
		f.ifaceUsed[name] = it
		return and(not(eq(x.Tm, "any_nil")), app(name, app("any_tag", x.Tm))), Val{K: KAny, T: t, Tm: x.Tm}
	}
	k := kindOf(t)
	tag := intLit(int64(f.e.tags.tag(t)))
	if k == KStruct {
		ok := and(app("(_ is any_ref)", x.Tm), eq(app("tg_r", x.Tm), tag))
		return ok, f.unboxStruct(app("vl_r", x.Tm), t)
	}
	ctor, tg, vl := anyCtorFor(k)
	ok := and(app("(_ is "+ctor+")", x.Tm), eq(app(tg, x.Tm), tag))
	return ok, Val{K: k, T: t, Tm: app(vl, x.Tm)}
}

func (f *FnCtx) finishGlobals() {
	// implements-facts for every (iface used, tag known)
	for _, name := range sortedKeys(f.ifaceUsed) {
		it := f.ifaceUsed[name]
		for i, t := range f.e.tags.types {
			id := i + 1
			if types.Implements(t, it) {
				f.global = append(f.global, app(name, intLit(int64(id))))
			} else {
				f.global = append(f.global, not(app(name, intLit(int64(id)))))
			}
		}
	}
}

// ---------------------------------------------------------------------------
// constants

func (f *FnCtx) constVal(c *ssa.Const) Val {
	t := c.Type()
	k := kindOf(t)
	if c.Value == nil {
		return f.zeroVal(t)
	}
	switch k {
	case KBool:
		if constant.BoolVal(c.Value) {
			return Val{K: k, T: t, Tm: "true"}
		}
		return Val{K: k, T: t, Tm: "false"}
	case KInt:
		v := constant.ToInt(c.Value)
		return Val{K: k, T: t, Tm: bigIntLit(v.ExactString())}
	case KFloat:
		fv, _ := constant.Float64Val(constant.ToFloat(c.Value))
		return Val{K: k, T: t, Tm: floatLit(fv)}
	case KString:
		return Val{K: k, T: t, Tm: strLit(constant.StringVal(c.Value))}
	}
	f.abstr["const-"+t.String()]++
	return f.freshVal("const", t)
}

func (fr *frame) valOK(v ssa.Value) (Val, bool) {
	switch x := v.(type) {
	case *ssa.Const:
		return fr.f.constVal(x), true
	case *ssa.Function:
		return Val{K: KRef, T: x.Type(), Tm: intLit(int64(fr.f.e.fnID(x)))}, true
	case *ssa.Global:
		name := "gv." + sanitize(x.String())
		fr.f.c.declConst(name, sortInt)
		return Val{K: KRef, T: x.Type(), Tm: name}, true
	case *ssa.Builtin:
		return Val{K: KUnit}, true
	}
	val, ok := fr.vals[v]
	return val, ok
}

func (fr *frame) val(v ssa.Value) Val {
	val, ok := fr.valOK(v)
	if !ok {
		// value from an unprocessed (unreachable / back-edge) block
		val = fr.f.freshVal("undef."+v.Name(), v.Type())
		fr.vals[v] = val
	}
	return val
}

// assumeOldRef: v denotes a reference that existed when the function was
// entered: it is non-negative (this call's allocations are negative) and, for
// a slice, so is its backing array.
func (f *FnCtx) assumeOldRef(st *bstate, v Val) {
	if f.knownOld == nil {
		f.knownOld = map[string]bool{}
	}
	if f.knownOld[v.Tm] {
		return
	}
	f.knownOld[v.Tm] = true
	t := app(">=", v.Tm, "0")
	if v.T != nil {
		if _, ok := v.T.Underlying().(*types.Slice); ok {
			t = and(t, app(">=", f.sliceBase(v.Tm), "0"), app(">=", f.sliceLen(v.Tm), "0"), app(">=", f.sliceCap(v.Tm), f.sliceLen(v.Tm)))
		}
	}
	f.assume(st, t, "references existing at entry are non-negative (allocations of this call are negative)")
}

// assumeOldRefs: every reference inside a value received at entry (fields of a struct passed by
// value included) existed before this call.
func (f *FnCtx) assumeOldRefs(st *bstate, v Val) {
	switch v.K {
	case KRef:
		f.assumeOldRef(st, v)
	case KStruct:
		for _, fv := range v.Fs {
			f.assumeOldRefs(st, fv)
		}
	}
}

// havocDirty: after a havoc of unknown extent the heap may contain this call's escaped allocations.
func (f *FnCtx) markHavoc() { f.dirtyAll = true }

// readOnlyCapture: the closure (and closures it creates) only ever loads from the captured cell.
func readOnlyCapture(fv ssa.Value, depth int) bool {
	if depth > 4 || fv.Referrers() == nil {
		return false
	}
	for _, r := range *fv.Referrers() {
		switch u := r.(type) {
		case *ssa.DebugRef:
		case *ssa.UnOp:
			if u.Op != token.MUL {
				return false
			}
		case *ssa.MakeClosure:
			fn, ok := u.Fn.(*ssa.Function)
			if !ok {
				return false
			}
			for i, b := range u.Bindings {
				if b == fv && (i >= len(fn.FreeVars) || !readOnlyCapture(fn.FreeVars[i], depth+1)) {
					return false
				}
			}
		default:
			return false
		}
	}
	return true
}

func closureLeaks(mc *ssa.MakeClosure, cell ssa.Value) bool {
	// a closure that only reads the cell cannot change it, however the closure is used (go, stored, ...)
	if fn, ok := mc.Fn.(*ssa.Function); ok {
		ro := true
		for i, b := range mc.Bindings {
			if b == cell && (i >= len(fn.FreeVars) || !readOnlyCapture(fn.FreeVars[i], 0)) {
				ro = false
			}
		}
		if ro {
			return false
		}
	}
	refs := mc.Referrers()
	if refs == nil {
		return true
	}
	for _, r := range *refs {
		switch u := r.(type) {
		case *ssa.DebugRef:
		case *ssa.Defer:
			if u.Call.Value != mc {
				return true
			}
		case *ssa.Call:
			if u.Call.Value != mc {
				return true
			}
		default:
			return true
		}
	}
	fn, ok := mc.Fn.(*ssa.Function)
	if !ok {
		return true
	}
	for i, b := range mc.Bindings {
		if b != cell || i >= len(fn.FreeVars) {
			continue
		}
		if addrEscapes(fn.FreeVars[i], map[ssa.Value]bool{}) {
			return true
		}
	}
	return false
}

// loopTypeInvariants: from == nil: assume at the header; otherwise oblige on the back edge.
func (fr *frame) loopTypeInvariants(h *ssa.BasicBlock, st *bstate, from *ssa.BasicBlock) {
	f := fr.f
	// the hidden counter of a range-over-slice loop starts at -1 and is only ever incremented by
	// one (checked on the SSA): it is never below -1.  This is what makes the element access of
	// the loop body provably in range together with the loop's own test.
	if from == nil {
		for _, in := range h.Instrs {
			phi, ok := in.(*ssa.Phi)
			if !ok {
				break
			}
			if phi.Comment != "rangeindex" {
				continue
			}
			okShape, sawInit := true, false
			for _, e := range phi.Edges {
				if c, isC := e.(*ssa.Const); isC && c.Value != nil && c.Int64() == -1 {
					sawInit = true
					continue
				}
				o, isAdd := e.(*ssa.BinOp)
				if !isAdd || o.Op != token.ADD || o.X != ssa.Value(phi) {
					okShape = false
					break
				}
				if oc, ok := o.Y.(*ssa.Const); !ok || oc.Value == nil || oc.Int64() != 1 {
					okShape = false
				}
			}
			okShape = okShape && sawInit
			if v, have := fr.valOK(phi); okShape && have && v.K == KInt {
				f.assume(st, app(">=", v.Tm, "(- 1)"), "range counter is never below -1")
			}
		}
		// any other counter: a header phi whose incoming values are one initial value and the phi itself
		// plus (minus) a positive constant never goes below (above) its initial value (overflow aside)
		for _, in := range h.Instrs {
			phi, ok := in.(*ssa.Phi)
			if !ok {
				break
			}
			if phi.Comment == "rangeindex" || kindOf(phi.Type()) != KInt {
				continue
			}
			var init ssa.Value
			dir, okShape := 0, true
			for i, e := range phi.Edges {
				pred := h.Preds[i]
				if !fr.loopBody[h][pred] { // entry edge
					if init != nil && init != e {
						okShape = false
					}
					init = e
					continue
				}
				o, isOp := e.(*ssa.BinOp)
				if !isOp || o.X != ssa.Value(phi) || (o.Op != token.ADD && o.Op != token.SUB) {
					okShape = false
					break
				}
				oc, isC := o.Y.(*ssa.Const)
				if !isC || oc.Value == nil || oc.Int64() <= 0 {
					okShape = false
					break
				}
				d := 1
				if o.Op == token.SUB {
					d = -1
				}
				if dir != 0 && dir != d {
					okShape = false
				}
				dir = d
			}
			if !okShape || init == nil || dir == 0 {
				continue
			}
			v, have := fr.valOK(phi)
			iv, haveI := fr.valOK(init)
			if !have || !haveI || v.K != KInt || iv.K != KInt {
				continue
			}
			if dir > 0 {
				f.assume(st, app(">=", v.Tm, iv.Tm), "a counter that only counts up is never below its start")
			} else {
				f.assume(st, app("<=", v.Tm, iv.Tm), "a counter that only counts down is never above its start")
			}
		}
	}
	for _, p := range fr.fn.Params {
		ts := f.e.typeSpecOf(p.Type())
		if ts == nil || len(ts.Invs) == 0 || fr.isCtorOf(ts) {
			continue
		}
		if _, isPtr := p.Type().Underlying().(*types.Pointer); !isPtr {
			continue
		}
		for _, inv := range ts.Invs {
			if !f.e.active(inv.Tags) {
				continue
			}
			env := f.newEnv(ts.Pkg, st.heap, fr.oldHeap, map[string]Val{"self": fr.vals[p]}, nil)
			if from == nil {
				if v, err := env.evalBool(inv.E); err == nil {
					f.assume(st, v, "type invariant of "+ts.Name+" at loop head: "+inv.Src)
				}
				f.hs.ignoreCallHavoc = true
				if v, err := env.evalBool(inv.E); err == nil {
					f.assume(st, v, "type invariant of "+ts.Name+" at loop head (own writes only): "+inv.Src)
				}
				f.hs.ignoreCallHavoc = false
				continue
			}
			if hh := fr.headerHeap[h]; hh != nil && !fr.invTouched(ts, inv, fr.vals[p], hh, st.heap) {
				continue
			}
			f.hs.ignoreCallHavoc = true
			v, err := env.evalBool(inv.E)
			f.hs.ignoreCallHavoc = false
			if err != nil {
				continue
			}
			f.oblige(st, fmt.Sprintf("%s#loop%d:type-invariant:%s:%s", fnShortName(fr.fn), fr.loopOrd[h], ts.Name, clauseLabel(inv)), "type-invariant", inv.Tags, v, inv.Src, inv.Line)
		}
	}
}

// sweep kind "passwriter": a function that receives the output stream (an io.Writer parameter) only
// passes it on to functions of the module; it never writes to it itself and never hands it to library
// code (json.NewEncoder, fmt.Fprint...).  The one function that writes frames is exempted by nosweep.
func (fr *frame) sweepPassWriter(st *bstate) {
	f := fr.f
	if !f.sweep["passwriter"] || f.dry {
		return
	}
	var check func(v ssa.Value, what string, depth int)
	check = func(v ssa.Value, what string, depth int) {
		if v.Referrers() == nil || depth > 3 {
			return
		}
		for _, r := range *v.Referrers() {
			bad := ""
			switch u := r.(type) {
			case *ssa.DebugRef:
			case *ssa.MakeClosure:
				// captured by a closure of this function: look at what the closure does with it
				if cf, ok := u.Fn.(*ssa.Function); ok {
					for i, b := range u.Bindings {
						if b == v && i < len(cf.FreeVars) {
							check(cf.FreeVars[i], what, depth+1)
						}
					}
				}
			case *ssa.Store:
				if u.Val == v {
					if _, isCell := u.Addr.(*ssa.Alloc); !isCell {
						bad = "stored away"
					} else {
						check(u.Addr, what, depth+1)
					}
				}
			case *ssa.UnOp:
				if u.Op == token.MUL {
					check(u, what, depth+1)
				}
			case *ssa.MakeInterface, *ssa.ChangeInterface, *ssa.TypeAssert:
				check(r.(ssa.Value), what, depth+1)
			case ssa.CallInstruction:
				cc := u.Common()
				if cc.IsInvoke() && cc.Value == v {
					bad = "written to directly (" + cc.Method.Name() + ")"
				} else if callee := cc.StaticCallee(); callee == nil || callee.Pkg == nil || !inModule(callee.Pkg.Pkg) {
					bad = "handed to code outside the module"
				}
			default:
				bad = fmt.Sprintf("used by %T", r)
			}
			if bad != "" {
				f.oblige(st, fmt.Sprintf("%s#output-stream-only-passed-on:%s", fnShortName(fr.fn), what), "safety", f.sweepTags, "false",
					"the output stream "+what+" is "+bad+" here; only the frame writer may write to it", posStr(f.e.fset, r.Pos()))
			}
		}
	}
	for _, p := range fr.fn.Params {
		if n, ok := p.Type().(*types.Named); ok && n.Obj().Pkg() != nil && n.Obj().Pkg().Path() == "io" && n.Obj().Name() == "Writer" {
			check(p, p.Name(), 0)
		}
	}
}

// sweep kind "paramsro": the function does not assign to its parameters (what its closures and
// callees see under a parameter's name is what the caller passed).  Structural.
func (fr *frame) sweepParamsReadOnly(st *bstate) {
	f := fr.f
	if !f.sweep["paramsro"] || f.dry {
		return
	}
	pnames := map[string]*ssa.Parameter{}
	for _, p := range fr.fn.Params {
		pnames[p.Name()] = p
	}
	var writes func(v ssa.Value, name string, depth int)
	writes = func(v ssa.Value, name string, depth int) {
		if v.Referrers() == nil || depth > 3 {
			return
		}
		for _, r := range *v.Referrers() {
			switch u := r.(type) {
			case *ssa.Store:
				if u.Addr == v {
					if p, isP := u.Val.(*ssa.Parameter); isP && p == pnames[name] && depth == 0 {
						continue // the initial copy of the argument into the variable
					}
					f.oblige(st, fmt.Sprintf("%s#parameter-not-reassigned:%s", fnShortName(fr.fn), name), "safety", f.sweepTags, "false",
						"the parameter "+name+" is assigned to inside the function", posStr(f.e.fset, u.Pos()))
				}
			case *ssa.FieldAddr:
				writes(u, name, depth+1)
			case *ssa.IndexAddr:
				writes(u, name, depth+1)
			case *ssa.MakeClosure:
				if cf, ok := u.Fn.(*ssa.Function); ok {
					for i, b := range u.Bindings {
						if b == v && i < len(cf.FreeVars) {
							writes(cf.FreeVars[i], name, depth+1)
						}
					}
				}
			}
		}
	}
	for _, b := range fr.fn.Blocks {
		for _, in := range b.Instrs {
			if a, ok := in.(*ssa.Alloc); ok && pnames[a.Comment] != nil {
				writes(a, a.Comment, 0)
			}
		}
	}
}

// sweep kind "freshdecode": inside a loop every message / item is decoded into storage of its own.  A
// variable declared outside the loop and handed to json.Unmarshal / (*json.Decoder).Decode in the loop is
// overwritten in place by the next iteration (a RawMessage keeps its backing array, a struct keeps the
// fields the next document omits), so whatever an earlier iteration handed out - a pointer to it, a slice
// of it - changes under its holder.  Structural.
func (fr *frame) sweepFreshDecode(st *bstate) {
	f := fr.f
	if !f.sweep["freshdecode"] || f.dry {
		return
	}
	for _, b := range fr.fn.Blocks {
		for _, in := range b.Instrs {
			call, ok := in.(ssa.CallInstruction)
			if !ok {
				continue
			}
			cc := call.Common()
			callee := cc.StaticCallee()
			if callee == nil || len(cc.Args) == 0 {
				continue
			}
			switch callee.String() {
			case "encoding/json.Unmarshal", "(*encoding/json.Decoder).Decode", "encoding/xml.Unmarshal", "(*encoding/xml.Decoder).Decode":
			default:
				continue
			}
			dst := cc.Args[len(cc.Args)-1]
			for {
				if mi, ok := dst.(*ssa.MakeInterface); ok {
					dst = mi.X
					continue
				}
				if fa, ok := dst.(*ssa.FieldAddr); ok {
					dst = fa.X
					continue
				}
				break
			}
			al, ok := dst.(*ssa.Alloc)
			if !ok {
				continue
			}
			for h, body := range fr.loopBody {
				if body[b] && !body[al.Block()] {
					what := al.Comment
					if what == "" {
						what = "value"
					}
					f.oblige(st, fmt.Sprintf("%s#decoded-into-storage-of-its-own:%s", fnShortName(fr.fn), what), "safety", f.sweepTags, "false",
						fmt.Sprintf("loop %d decodes every item into the one variable %s declared outside it", fr.loopOrd[h], what), posStr(f.e.fset, in.Pos()))
					break
				}
			}
		}
	}
}

// bareIdents: identifiers of a clause that are not under old() / atlock() and not bound by a quantifier.
func bareIdents(e Expr, bound map[string]bool, out map[string]bool) {
	switch x := e.(type) {
	case *EIdent:
		if !bound[x.Name] {
			out[x.Name] = true
		}
	case *EUnary:
		bareIdents(x.X, bound, out)
	case *EBinary:
		bareIdents(x.X, bound, out)
		bareIdents(x.Y, bound, out)
	case *ECond:
		bareIdents(x.C, bound, out)
		bareIdents(x.A, bound, out)
		bareIdents(x.B, bound, out)
	case *ESel:
		bareIdents(x.X, bound, out)
	case *EIndex:
		bareIdents(x.X, bound, out)
		bareIdents(x.I, bound, out)
	case *ECall:
		if id, ok := x.Fn.(*EIdent); ok && (id.Name == "atlock" || id.Name == "old" || id.Name == "athead") {
			return
		}
		for _, a := range x.Args {
			bareIdents(a, bound, out)
		}
	case *EQuant:
		nb := map[string]bool{}
		for k := range bound {
			nb[k] = true
		}
		for _, v := range x.Vars {
			nb[v.Name] = true
		}
		bareIdents(x.Body, nb, out)
	case *EAssertT:
		bareIdents(x.X, bound, out)
	}
}

// A `before call` clause that names a parameter outside old() speaks of the parameter's current value.  If the
// function assigns to that parameter the clause no longer relates the call to what the caller passed (the
// clause "the message carries the given method" would hold of any rewritten method): such an assignment is
// itself reported, under the clause's property.
func (fr *frame) checkContractParamsStable(st *bstate) {
	f := fr.f
	if f.dry || !fr.top || fr.spec == nil || len(fr.spec.Before) == 0 {
		return
	}
	params := map[string]*ssa.Parameter{}
	for _, p := range fr.fn.Params {
		params[p.Name()] = p
	}
	for _, ba := range fr.spec.Before {
		if !f.e.active(ba.C.Tags) {
			continue
		}
		ids := map[string]bool{}
		bareIdents(ba.C.E, map[string]bool{}, ids)
		for name := range ids {
			p := params[name]
			if p == nil {
				continue
			}
			var at token.Pos
			hasCell := false
			for _, b := range fr.fn.Blocks {
				for _, in := range b.Instrs {
					if a, ok := in.(*ssa.Alloc); ok && a.Comment == name {
						hasCell = true
					}
				}
			}
			for _, b := range fr.fn.Blocks {
				for _, in := range b.Instrs {
					switch x := in.(type) {
					case *ssa.DebugRef:
						if !hasCell && debugRefName(x) == name && !x.IsAddr && x.X != ssa.Value(p) && !isConversionOf(x.X, p) && !at.IsValid() {
							at = x.Pos()
						}
					case *ssa.Store:
						if a, ok := x.Addr.(*ssa.Alloc); ok && a.Comment == name && x.Val != ssa.Value(p) && !at.IsValid() {
							at = x.Pos()
						}
					}
				}
			}
			if at.IsValid() {
				f.oblige(st, fmt.Sprintf("%s#parameter-named-in-a-clause-is-not-reassigned:%s", fnShortName(fr.fn), name), "safety", ba.C.Tags, "false",
					"the clause at "+ba.C.Line+" names the parameter "+name+", which the function assigns to", posStr(f.e.fset, at))
			}
		}
	}
}

// isConversionOf: v is p under an implicit or explicit type conversion (not a new value assigned to the name).
func isConversionOf(v ssa.Value, p ssa.Value) bool {
	for i := 0; i < 3; i++ {
		switch x := v.(type) {
		case *ssa.ChangeType:
			v = x.X
		case *ssa.ChangeInterface:
			v = x.X
		case *ssa.MakeInterface:
			v = x.X
		case *ssa.Convert:
			v = x.X
		default:
			return v == p
		}
		if v == p {
			return true
		}
	}
	return false
}

// sweep kind "globalsro": the function does not assign to package-level variables of the module (directly or
// through a pointer it took to one): configuration defaults and tables declared at package level are shared by
// every client, server and request of the process.  Structural; package initialisers are exempt.
func (fr *frame) sweepGlobalsReadOnly(st *bstate) {
	f := fr.f
	if !f.sweep["globalsro"] || f.dry {
		return
	}
	root := fr.fn
	for root.Parent() != nil {
		root = root.Parent()
	}
	if root.Name() == "init" || strings.HasPrefix(root.Name(), "init#") {
		return
	}
	var base func(v ssa.Value, depth int) *ssa.Global
	base = func(v ssa.Value, depth int) *ssa.Global {
		if depth > 6 {
			return nil
		}
		switch x := v.(type) {
		case *ssa.Global:
			return x
		case *ssa.FieldAddr:
			return base(x.X, depth+1)
		case *ssa.IndexAddr:
			return base(x.X, depth+1)
		case *ssa.Phi:
			for _, e := range x.Edges {
				if g := base(e, depth+1); g != nil {
					return g
				}
			}
		case *ssa.UnOp:
			// a pointer kept in a local variable: what was stored there
			if a, ok := x.X.(*ssa.Alloc); ok && x.Op == token.MUL && a.Referrers() != nil {
				for _, r := range *a.Referrers() {
					if st, ok := r.(*ssa.Store); ok && st.Addr == ssa.Value(a) {
						if g := base(st.Val, depth+1); g != nil {
							return g
						}
					}
				}
			}
		}
		return nil
	}
	for _, b := range fr.fn.Blocks {
		for _, in := range b.Instrs {
			s, ok := in.(*ssa.Store)
			if !ok {
				continue
			}
			g := base(s.Addr, 0)
			if g == nil || g.Pkg == nil || !inModule(g.Pkg.Pkg) {
				continue
			}
			f.oblige(st, fmt.Sprintf("%s#package-level-variable-not-written:%s", fnShortName(fr.fn), g.Name()), "safety", f.sweepTags, "false",
				"the package-level variable "+g.Name()+" is assigned to outside package initialisation", posStr(f.e.fset, s.Pos()))
		}
	}
}

// sweep kind "copylocks": no method has a value receiver, and no function a by-value parameter, of a struct
// type that contains a mutex or an atomic cell: every call would copy the lock (readers then lock a private
// copy and are not excluded from writers) and read the other fields without synchronisation.  Structural.
func (fr *frame) sweepCopyLocks(st *bstate) {
	f := fr.f
	if !f.sweep["copylocks"] || f.dry || fr.fn.Parent() != nil {
		return
	}
	var hasLock func(t types.Type, depth int) bool
	hasLock = func(t types.Type, depth int) bool {
		if depth > 4 {
			return false
		}
		if n, ok := t.(*types.Named); ok && n.Obj().Pkg() != nil {
			switch n.Obj().Pkg().Path() + "." + n.Obj().Name() {
			case "sync.Mutex", "sync.RWMutex", "sync.WaitGroup", "sync.Once", "sync.Cond", "sync.Map",
				"sync/atomic.Bool", "sync/atomic.Int32", "sync/atomic.Int64", "sync/atomic.Uint32", "sync/atomic.Uint64", "sync/atomic.Value":
				return true
			}
		}
		if stt, ok := t.Underlying().(*types.Struct); ok {
			for i := 0; i < stt.NumFields(); i++ {
				if hasLock(stt.Field(i).Type(), depth+1) {
					return true
				}
			}
		}
		return false
	}
	sig := fr.fn.Signature
	check := func(v *types.Var, what string) {
		if v == nil {
			return
		}
		if _, isPtr := v.Type().Underlying().(*types.Pointer); isPtr {
			return
		}
		if _, isStruct := v.Type().Underlying().(*types.Struct); isStruct && hasLock(v.Type(), 0) {
			f.oblige(st, fmt.Sprintf("%s#lock-not-copied:%s", fnShortName(fr.fn), what), "safety", f.sweepTags, "false",
				what+" of type "+v.Type().String()+" is passed by value: the call copies a lock", posStr(f.e.fset, fr.fn.Pos()))
		}
	}
	check(sig.Recv(), "receiver")
	for i := 0; i < sig.Params().Len(); i++ {
		check(sig.Params().At(i), "parameter "+sig.Params().At(i).Name())
	}
}

// sweep kind "nostdout": the function does not mention os.Stdout.  In a stdio server the process's standard
// output is the protocol stream: only the stdio transport's serve functions (outside the scope) hand it out, and
// nothing else of the library - loggers included - may write there.  Structural.
func (fr *frame) sweepNoStdout(st *bstate) {
	f := fr.f
	if !f.sweep["nostdout"] || f.dry {
		return
	}
	for _, b := range fr.fn.Blocks {
		for _, in := range b.Instrs {
			for _, op := range in.Operands(nil) {
				if g, ok := (*op).(*ssa.Global); ok && g.Pkg != nil && g.Pkg.Pkg.Path() == "os" && g.Name() == "Stdout" {
					f.oblige(st, fmt.Sprintf("%s#standard-output-left-to-the-stdio-transport", fnShortName(fr.fn)), "safety", f.sweepTags, "false",
						"os.Stdout is used here; in a stdio server that is the protocol stream", posStr(f.e.fset, in.Pos()))
				}
			}
		}
	}
}

// sweep kind "nosessiondata": the function does not read per-session data (Session.GetData).  What the shared
// managers answer is a function of the registrations and the request; the data a transport stored in its session
// (negotiated revision, transport-private entries) differs between transports and some have no session at all,
// so an answer that depends on it is not the same answer everywhere.  Structural.
func (fr *frame) sweepNoSessionData(st *bstate) {
	f := fr.f
	if !f.sweep["nosessiondata"] || f.dry {
		return
	}
	for _, b := range fr.fn.Blocks {
		for _, in := range b.Instrs {
			c, ok := in.(ssa.CallInstruction)
			if !ok {
				continue
			}
			cc := c.Common()
			name := ""
			if cc.IsInvoke() {
				if n, ok := cc.Value.Type().(*types.Named); ok && n.Obj().Name() == "Session" && n.Obj().Pkg() != nil && inModule(n.Obj().Pkg()) {
					name = cc.Method.Name()
				}
			} else if sc := cc.StaticCallee(); sc != nil && sc.Signature.Recv() != nil && sc.Pkg != nil && inModule(sc.Pkg.Pkg) {
				rt := sc.Signature.Recv().Type()
				if pt, ok := rt.(*types.Pointer); ok {
					rt = pt.Elem()
				}
				if n, ok := rt.(*types.Named); ok && strings.HasSuffix(strings.ToLower(n.Obj().Name()), "session") {
					name = sc.Name()
				}
			}
			if name == "GetData" {
				f.oblige(st, fmt.Sprintf("%s#answer-does-not-depend-on-session-data", fnShortName(fr.fn)), "safety", f.sweepTags, "false",
					"per-session data is read here; the shared managers answer from the registrations and the request alone", posStr(f.e.fset, in.Pos()))
			}
		}
	}
}

// sweep kind "loopclosure": a closure created inside a loop does not capture a variable that the loop itself
// reassigns on every iteration.  Under this module's language version (go 1.20) the variables of a `for ... range`
// clause are shared by all iterations, so every closure made in the loop would see the last element.  Structural:
// the captured cell is allocated outside the loop and stored to inside it.
func (fr *frame) sweepLoopClosures(st *bstate) {
	f := fr.f
	if !f.sweep["loopclosure"] || f.dry {
		return
	}
	for h, body := range fr.loopBody {
		for b := range body {
			for _, in := range b.Instrs {
				mc, ok := in.(*ssa.MakeClosure)
				if !ok {
					continue
				}
				for _, bind := range mc.Bindings {
					cell, ok := bind.(*ssa.Alloc)
					if !ok || body[cell.Block()] || cell.Referrers() == nil {
						continue // a cell allocated per iteration (or not a cell)
					}
					written := false
					for _, r := range *cell.Referrers() {
						if s, ok := r.(*ssa.Store); ok && s.Addr == ssa.Value(cell) && body[s.Block()] {
							written = true
						}
					}
					if written {
						name := cell.Comment
						if name == "" {
							name = "variable"
						}
						f.oblige(st, fmt.Sprintf("%s#closure-made-in-a-loop-captures-no-loop-variable:%s", fnShortName(fr.fn), name), "safety", f.sweepTags, "false",
							fmt.Sprintf("the closure made in loop %d captures %s, which every iteration of the loop overwrites (one variable shared by all iterations)", fr.loopOrd[h], name), posStr(f.e.fset, mc.Pos()))
					}
				}
			}
		}
	}
}

// sweep kind "deadparamstore": a by-value parameter is not assigned a value that nothing reads afterwards.  Such
// an assignment is what remains of "reset the caller's variable" after the variable became a parameter (a
// closure whose parameters shadow the variables it was meant to clear): the caller's variable keeps its value.
// Structural: a definition of the parameter's name with no use of the name reachable behind it.
func (fr *frame) sweepDeadParamStores(st *bstate) {
	f := fr.f
	if !f.sweep["deadparamstore"] || f.dry {
		return
	}
	// the function itself and the closures it declares (those that are only called in place are never
	// analysed on their own)
	var fns []*ssa.Function
	var collect func(fn *ssa.Function)
	collect = func(fn *ssa.Function) {
		fns = append(fns, fn)
		for _, a := range fn.AnonFuncs {
			collect(a)
		}
	}
	collect(fr.fn)
	for _, fn := range fns {
		fr.deadParamStoresOf(fn, st)
	}
}

func (fr *frame) deadParamStoresOf(fn *ssa.Function, st *bstate) {
	f := fr.f
	params := map[string]*ssa.Parameter{}
	for _, p := range fn.Params {
		if _, isPtr := p.Type().Underlying().(*types.Pointer); !isPtr {
			params[p.Name()] = p
		}
	}
	if len(params) == 0 {
		return
	}
	type ref struct {
		b   *ssa.BasicBlock
		idx int
		d   *ssa.DebugRef
	}
	byName := map[string][]ref{}
	for _, b := range fn.Blocks {
		for i, in := range b.Instrs {
			if d, ok := in.(*ssa.DebugRef); ok {
				if n := debugRefName(d); params[n] != nil {
					byName[n] = append(byName[n], ref{b, i, d})
				}
			}
		}
	}
	reach := func(from *ssa.BasicBlock) map[*ssa.BasicBlock]bool {
		seen := map[*ssa.BasicBlock]bool{}
		stack := append([]*ssa.BasicBlock{}, from.Succs...)
		for len(stack) > 0 {
			x := stack[len(stack)-1]
			stack = stack[:len(stack)-1]
			if seen[x] {
				continue
			}
			seen[x] = true
			stack = append(stack, x.Succs...)
		}
		return seen
	}
	for name, refs := range byName {
		p := params[name]
		for _, r := range refs {
			if r.d.IsAddr || r.d.X == ssa.Value(p) || isConversionOf(r.d.X, p) {
				continue // a use (or the address taken): not an assignment of a new value
			}
			if _, isPhi := r.d.X.(*ssa.Phi); isPhi {
				continue // a use after a merge
			}
			// an assignment of a new value to the parameter: is the name used anywhere behind it?
			later := false
			rb := reach(r.b)
			for _, o := range refs {
				if o.d == r.d {
					continue
				}
				if (o.b == r.b && o.idx > r.idx) || rb[o.b] {
					later = true
				}
			}
			// the new value itself may be used without the name (returned, passed on)
			if rr := r.d.X.Referrers(); rr != nil {
				for _, u := range *rr {
					if _, isDbg := u.(*ssa.DebugRef); !isDbg {
						if _, isConst := r.d.X.(*ssa.Const); !isConst {
							later = true
						}
					}
				}
			}
			if !later {
				f.oblige(st, fmt.Sprintf("%s#no-assignment-to-a-parameter-that-nothing-reads:%s", fnShortName(fn), name), "safety", f.sweepTags, "false",
					"the parameter "+name+" is assigned a value that is never read: the caller's variable of that name is not affected", posStr(f.e.fset, r.d.Pos()))
			}
		}
	}
}

// sweep kind "nowait": the function (closures included) starts no timer and does not sleep: time.After, time.Sleep,
// time.NewTimer, time.Tick, time.NewTicker and time.AfterFunc are not called.  For the attempt functions below the
// retry executor: the executor alone decides how long to wait between attempts.  Structural.
func (fr *frame) sweepNoWait(st *bstate) {
	f := fr.f
	if !f.sweep["nowait"] || f.dry {
		return
	}
	var fns []*ssa.Function
	var collect func(fn *ssa.Function)
	collect = func(fn *ssa.Function) {
		fns = append(fns, fn)
		for _, a := range fn.AnonFuncs {
			collect(a)
		}
	}
	collect(fr.fn)
	for _, fn := range fns {
		for _, b := range fn.Blocks {
			for _, in := range b.Instrs {
				c, ok := in.(ssa.CallInstruction)
				if !ok {
					continue
				}
				callee := c.Common().StaticCallee()
				if callee == nil {
					continue
				}
				switch callee.String() {
				case "time.After", "time.Sleep", "time.NewTimer", "time.Tick", "time.NewTicker", "time.AfterFunc":
					f.oblige(st, fmt.Sprintf("%s#an-attempt-does-not-wait-on-its-own:%s", fnShortName(fr.fn), callee.Name()), "safety", f.sweepTags, "false",
						"the attempt function calls "+callee.String()+": waits between attempts belong to the retry executor", posStr(f.e.fset, in.Pos()))
				}
			}
		}
	}
}

// sweep kind "framedoutput": the stdio client's frames go out through its JSON encoder only (one Encode call per
// message, terminated by the encoder): nothing writes to the field `stdin` directly - no Write / WriteString method,
// no io.WriteString, io.Copy or fmt.Fprint* on it.  Two raw writes for one message would let another writer's frame
// land in between.  Structural.
func (fr *frame) sweepFramedOutput(st *bstate) {
	f := fr.f
	if !f.sweep["framedoutput"] || f.dry {
		return
	}
	isStdin := func(v ssa.Value) bool {
		for i := 0; i < 4; i++ {
			switch x := v.(type) {
			case *ssa.MakeInterface:
				v = x.X
			case *ssa.ChangeInterface:
				v = x.X
			case *ssa.UnOp:
				if fa, ok := x.X.(*ssa.FieldAddr); ok {
					if pt, ok := fa.X.Type().Underlying().(*types.Pointer); ok {
						if stt, ok := pt.Elem().Underlying().(*types.Struct); ok {
							return stt.Field(fa.Field).Name() == "stdin"
						}
					}
				}
				return false
			default:
				return false
			}
		}
		return false
	}
	for _, b := range fr.fn.Blocks {
		for _, in := range b.Instrs {
			c, ok := in.(ssa.CallInstruction)
			if !ok {
				continue
			}
			cc := c.Common()
			bad := ""
			if cc.IsInvoke() && isStdin(cc.Value) && (cc.Method.Name() == "Write" || cc.Method.Name() == "WriteString") {
				bad = cc.Method.Name()
			} else if callee := cc.StaticCallee(); callee != nil && len(cc.Args) > 0 && isStdin(cc.Args[0]) {
				switch callee.String() {
				case "io.WriteString", "io.Copy", "fmt.Fprint", "fmt.Fprintf", "fmt.Fprintln":
					bad = callee.String()
				}
			}
			if bad != "" {
				f.oblige(st, fmt.Sprintf("%s#frames-go-out-through-the-encoder:%s", fnShortName(fr.fn), bad), "safety", f.sweepTags, "false",
					"the process's standard input is written to directly ("+bad+"): frames are written by the encoder, one Encode call per message", posStr(f.e.fset, in.Pos()))
			}
		}
	}
}
