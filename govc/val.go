package main

// Symbolic values, Go-type -> SMT-sort mapping, and the heap model.

import (
	"fmt"
	"go/types"
	"math"
	"regexp"
	"strings"
)

func mathFloat64bits(f float64) uint64 { return math.Float64bits(f) }

type Kind int

const (
	KBool Kind = iota
	KInt
	KFloat
	KString
	KRef    // pointer, map, chan, func, slice, unsafe pointer
	KAny    // interface
	KStruct // exploded struct value
	KTuple  // multiple results
	KAddr   // address of a scalar location (not materialised)
	KUnit
)

type Val struct {
	K  Kind
	T  types.Type
	Tm string
	Fs []Val // struct fields / tuple components
	A  *Addr // KAddr
}

// Addr is the address of a scalar (or ref/any-valued) memory location.
type Addr struct {
	Key  string // heap key
	Sort string // element sort
	Obj  string // object ref term
	Idx  string // optional index term (elements of arrays/slices)
	ET   types.Type
}

func (v Val) String() string {
	switch v.K {
	case KStruct, KTuple:
		var s []string
		for _, f := range v.Fs {
			s = append(s, f.String())
		}
		return "{" + strings.Join(s, ", ") + "}"
	case KAddr:
		return "&" + v.A.Key + "[" + v.A.Obj + "]"
	}
	return v.Tm
}

func kindSort(k Kind) string {
	switch k {
	case KBool:
		return sortBool
	case KInt, KRef:
		return sortInt
	case KFloat:
		return sortFloat
	case KString:
		return sortString
	case KAny:
		return sortAny
	}
	return "?"
}

// atomicKind: the types of sync/atomic are modelled as plain cells of their
// payload kind (sequential reasoning; atomicity itself is C20's concern).
func atomicKind(t types.Type) (Kind, bool) {
	n, ok := t.(*types.Named)
	if !ok || n.Obj().Pkg() == nil || n.Obj().Pkg().Path() != "sync/atomic" {
		return 0, false
	}
	switch n.Obj().Name() {
	case "Bool":
		return KBool, true
	case "Int32", "Int64", "Uint32", "Uint64", "Uintptr":
		return KInt, true
	case "Value":
		return KAny, true
	case "Pointer":
		return KRef, true
	}
	return 0, false
}

func kindOf(t types.Type) Kind {
	if t == nil {
		return KUnit
	}
	if k, ok := atomicKind(t); ok {
		return k
	}
	switch u := t.Underlying().(type) {
	case *types.Basic:
		switch {
		case u.Info()&types.IsBoolean != 0:
			return KBool
		case u.Info()&types.IsInteger != 0:
			return KInt
		case u.Info()&types.IsFloat != 0:
			return KFloat
		case u.Info()&types.IsString != 0:
			return KString
		case u.Kind() == types.UnsafePointer:
			return KRef
		case u.Kind() == types.UntypedNil:
			return KRef
		case u.Info()&types.IsComplex != 0:
			return KFloat
		}
		return KInt
	case *types.Pointer, *types.Map, *types.Chan, *types.Signature, *types.Slice:
		return KRef
	case *types.Interface:
		return KAny
	case *types.Struct:
		return KStruct
	case *types.Tuple:
		return KTuple
	case *types.Array:
		return KRef // arrays are handled through their address only
	case *types.TypeParam:
		return KAny
	}
	return KInt
}

func sortOfType(t types.Type) string {
	return kindSort(kindOf(t))
}

func isScalarKind(k Kind) bool {
	return k == KBool || k == KInt || k == KFloat || k == KString || k == KRef || k == KAny
}

func scalar(k Kind, t types.Type, tm string) Val { return Val{K: k, T: t, Tm: tm} }
func boolVal(tm string) Val                      { return Val{K: KBool, T: types.Typ[types.Bool], Tm: tm} }
func intVal(tm string) Val                       { return Val{K: KInt, T: types.Typ[types.Int], Tm: tm} }

// typeKey is a stable printable name for a Go type used in heap keys.
func typeKey(t types.Type) string {
	return sanitize(canonAny(types.TypeString(t, func(p *types.Package) string { return p.Name() })))
}

var anyWord = regexp.MustCompile(`\bany\b`)

// canonAny: "any" is an alias of interface{}; both spellings must give one key / tag.
func canonAny(s string) string { return anyWord.ReplaceAllString(s, "interface{}") }

// ---------------------------------------------------------------------------
// type tags for interfaces: one Int constant per Go type, allocated per Engine

type TagTable struct {
	ids   map[string]int
	types []types.Type
}

func newTagTable() *TagTable { return &TagTable{ids: map[string]int{}} }

func (tt *TagTable) tag(t types.Type) int {
	k := canonAny(types.TypeString(t, nil))
	if id, ok := tt.ids[k]; ok {
		return id
	}
	id := len(tt.ids) + 1
	tt.ids[k] = id
	tt.types = append(tt.types, t)
	return id
}

// ---------------------------------------------------------------------------
// Heap: persistent chain of writes / havocs / merges; values are looked up
// lazily per key so untouched keys cost nothing.

type Heap struct {
	kind        string // entry | write | havoc | havocSome | merge
	parent      *Heap
	key         string
	val         string
	keys        map[string]bool // havocSome: keys havocked; havoc+keep: keys kept
	preds       []*Heap
	conds       []string
	id          int
	memo        map[string]string
	obj         string     // write: object term whose entry was written ("" = unknown)
	loopSet     *loopFrame // havoc node of a loop header (dry pass): the loop's own frame
	isLoop      bool
	keepPrivate bool
	inclStable  bool            // havoc from an explicit `modifies *`: stable ghosts change too
	byCall      bool            // havoc caused by a call (as opposed to a loop frame)
	keep        map[string]bool // havoc: additional keys that survive
	interf      bool            // write models interference by another goroutine, not a write of this function
}

type HeapSpace struct {
	c               *Ctx
	n               int
	sorts           map[string]string // key -> array sort
	final           map[string]bool   // keys never havocked by calls
	private         map[string]bool   // keys only their type's writer methods may change
	onHavoc         func()
	stable          map[string]bool // stable ghosts: survive calls to unknown code, but not an explicit `modifies *`
	readLog         map[string]bool // when non-nil: keys read are recorded (footprint computation)
	ignoreCallHavoc bool            // evaluate as if calls to unknown code changed nothing (callees preserve invariants)
	onHavocKey      func(string)
}

func newHeapSpace(c *Ctx) *HeapSpace {
	return &HeapSpace{c: c, sorts: map[string]string{}, final: map[string]bool{}, private: map[string]bool{}, stable: map[string]bool{}}
}

func (hs *HeapSpace) node(kind string) *Heap {
	hs.n++
	return &Heap{kind: kind, id: hs.n, memo: map[string]string{}}
}

func (hs *HeapSpace) entry() *Heap { return hs.node("entry") }

func (hs *HeapSpace) regKey(key, srt string) {
	if old, ok := hs.sorts[key]; ok && old != srt {
		panic(fmt.Sprintf("heap key %s used at sorts %s and %s", key, old, srt))
	}
	hs.sorts[key] = srt
}

func (hs *HeapSpace) write(h *Heap, key, val string) *Heap {
	n := hs.node("write")
	n.parent = h
	n.key = key
	n.val = val
	return n
}

// havocAll: every key gets a fresh value, except final keys.
func (hs *HeapSpace) havocAll(h *Heap) *Heap {
	if hs.onHavoc != nil {
		hs.onHavoc()
	}
	n := hs.node("havoc")
	n.parent = h
	return n
}

func (hs *HeapSpace) havocKeys(h *Heap, keys map[string]bool) *Heap {
	if len(keys) == 0 {
		return h
	}
	if hs.onHavocKey != nil {
		for k := range keys {
			hs.onHavocKey(k)
		}
	}
	n := hs.node("havocSome")
	n.parent = h
	n.keys = keys
	return n
}

func (hs *HeapSpace) merge(preds []*Heap, conds []string) *Heap {
	if len(preds) == 1 {
		return preds[0]
	}
	same := true
	for _, p := range preds[1:] {
		if p != preds[0] {
			same = false
		}
	}
	if same {
		return preds[0]
	}
	n := hs.node("merge")
	n.preds = preds
	n.conds = conds
	return n
}

func (hs *HeapSpace) read(h *Heap, key string) string {
	if hs.readLog != nil {
		hs.readLog[key] = true
	}
	srt, ok := hs.sorts[key]
	if !ok {
		panic("heap key not registered: " + key)
	}
	// iterative walk up write chains
	cur := h
	for {
		switch cur.kind {
		case "write":
			if cur.key == key {
				return cur.val
			}
			cur = cur.parent
			continue
		case "havocSome":
			if cur.keys[key] {
				if v, ok := cur.memo[key]; ok {
					return v
				}
				v := hs.c.declConst(fmt.Sprintf("H.%s.%d", key, cur.id), srt)
				cur.memo[key] = v
				return v
			}
			cur = cur.parent
			continue
		case "havoc":
			if (hs.final[key] && !(cur.inclStable && hs.stable[key])) || (cur.keepPrivate && hs.private[key]) || cur.keep[key] || (cur.keep["G.chan.closed"] && strings.HasPrefix(key, "G.chan.closed")) || (hs.ignoreCallHavoc && cur.byCall) {
				cur = cur.parent
				continue
			}
			if v, ok := cur.memo[key]; ok {
				return v
			}
			v := hs.c.declConst(fmt.Sprintf("H.%s.%d", key, cur.id), srt)
			cur.memo[key] = v
			return v
		case "entry":
			if strings.HasPrefix(key, "G.defer.") {
				return "false" // a defer site that was not reached is not armed
			}
			if v, ok := cur.memo[key]; ok {
				return v
			}
			v := hs.c.declConst(fmt.Sprintf("H.%s.%d", key, cur.id), srt)
			cur.memo[key] = v
			return v
		case "merge":
			if v, ok := cur.memo[key]; ok && !hs.ignoreCallHavoc {
				return v
			}
			vals := make([]string, len(cur.preds))
			allSame := true
			for i, p := range cur.preds {
				vals[i] = hs.read(p, key)
				if vals[i] != vals[0] {
					allSame = false
				}
			}
			var v string
			if allSame {
				v = vals[0]
			} else {
				t := vals[len(vals)-1]
				for i := len(vals) - 2; i >= 0; i-- {
					t = ite(cur.conds[i], vals[i], t)
				}
				v = hs.c.define("Hm."+key, srt, t)
			}
			if !hs.ignoreCallHavoc {
				cur.memo[key] = v
			}
			return v
		}
		panic("bad heap node")
	}
}

// keysWrittenBetween collects the keys written (or all, if a havoc-all occurs)
// on the chain from h back to (excluding) stop.  Used for loop frames.
func keysWritten(h, stop *Heap, out map[string]bool, all *bool, seen map[*Heap]bool) {
	for h != nil && h != stop && !seen[h] {
		seen[h] = true
		switch h.kind {
		case "write":
			out[h.key] = true
			h = h.parent
		case "havocSome":
			for k := range h.keys {
				out[k] = true
			}
			h = h.parent
		case "havoc":
			*all = true
			h = h.parent
		case "merge":
			for _, p := range h.preds {
				keysWritten(p, stop, out, all, seen)
			}
			return
		default:
			return
		}
	}
}

// chanClosedGhost: the ghost "closed" state is kept per channel element type
// (channels of different element types cannot alias).
func chanClosedGhost(t types.Type) string {
	if t != nil {
		if c, ok := t.Underlying().(*types.Chan); ok {
			return "chan.closed." + typeKey(c.Elem())
		}
	}
	return "chan.closed.any"
}

func chanCapGhost(t types.Type) string {
	if t != nil {
		if c, ok := t.Underlying().(*types.Chan); ok {
			return "chan.cap." + typeKey(c.Elem())
		}
	}
	return "chan.cap.any"
}
