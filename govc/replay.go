package main

// Counterexample replay against the real code.
//
// Direct replay: for a failed `ensures` of a function whose parameters are
// scalars or structs of scalars, the model's parameter values are turned into a
// Go test that calls the real function and evaluates the postcondition
// (translated from the contract syntax to Go).  The test is injected with
// `go test -overlay` so nothing is written into the repository.

import (
	"bytes"
	"context"
	"encoding/json"
	"fmt"
	"go/types"
	"math"
	"os"
	"os/exec"
	"path/filepath"
	"regexp"
	"strconv"
	"strings"
	"time"

	"golang.org/x/tools/go/ssa"
)

var defineRe = regexp.MustCompile(`\(define-fun\s+(\S+)\s+\(\)\s+`)

// parseModel extracts 0-ary definitions: name -> value s-expression.
func parseModel(m string) map[string]string {
	out := map[string]string{}
	for _, loc := range defineRe.FindAllStringSubmatchIndex(m, -1) {
		name := m[loc[2]:loc[3]]
		rest := m[loc[1]:]
		// skip sort
		i := skipSexp(rest, 0)
		j := skipSexp(rest, i)
		if i < 0 || j < 0 {
			continue
		}
		out[name] = strings.TrimSpace(rest[i:j])
	}
	return out
}

func skipSexp(s string, i int) int {
	for i < len(s) && (s[i] == ' ' || s[i] == '\n' || s[i] == '\t') {
		i++
	}
	if i >= len(s) {
		return -1
	}
	if s[i] == '(' {
		d := 0
		for ; i < len(s); i++ {
			if s[i] == '(' {
				d++
			} else if s[i] == ')' {
				d--
				if d == 0 {
					return i + 1
				}
			} else if s[i] == '"' {
				i++
				for i < len(s) && s[i] != '"' {
					i++
				}
			}
		}
		return -1
	}
	if s[i] == '"' {
		i++
		for i < len(s) {
			if s[i] == '"' {
				if i+1 < len(s) && s[i+1] == '"' {
					i += 2
					continue
				}
				return i + 1
			}
			i++
		}
		return -1
	}
	for i < len(s) && s[i] != ' ' && s[i] != ')' && s[i] != '\n' {
		i++
	}
	return i
}

// modelToGo renders an SMT model value as a Go expression of kind k.
func modelToGo(v string, k Kind) (string, bool) {
	v = strings.TrimSpace(v)
	switch k {
	case KBool:
		return v, v == "true" || v == "false"
	case KInt:
		if strings.HasPrefix(v, "(- ") {
			return "-" + strings.TrimSuffix(v[3:], ")"), true
		}
		_, err := strconv.ParseInt(v, 10, 64)
		if err != nil {
			if _, err2 := strconv.ParseUint(v, 10, 64); err2 != nil {
				return "", false
			}
		}
		return v, true
	case KString:
		if len(v) < 2 || v[0] != '"' {
			return "", false
		}
		s := strings.ReplaceAll(v[1:len(v)-1], `""`, `"`)
		// \u{..} escapes
		re := regexp.MustCompile(`\\u\{([0-9a-fA-F]+)\}`)
		s = re.ReplaceAllStringFunc(s, func(m string) string {
			n, _ := strconv.ParseInt(re.FindStringSubmatch(m)[1], 16, 32)
			return string(rune(n))
		})
		return strconv.Quote(s), true
	case KFloat:
		switch {
		case strings.Contains(v, "NaN"):
			return "math.NaN()", true
		case strings.Contains(v, "+oo"):
			return "math.Inf(1)", true
		case strings.Contains(v, "-oo"):
			return "math.Inf(-1)", true
		case strings.Contains(v, "+zero"):
			return "0.0", true
		case strings.Contains(v, "-zero"):
			return "math.Copysign(0, -1)", true
		}
		re := regexp.MustCompile(`\(fp\s+#b([01])\s+#[bx]([0-9a-fA-F]+)\s+#[bx]([0-9a-fA-F]+)\)`)
		m := re.FindStringSubmatch(v)
		if m == nil {
			return "", false
		}
		parse := func(tok, digits string) uint64 {
			base := 2
			if strings.Contains(tok, "#x"+digits) {
				base = 16
			}
			n, _ := strconv.ParseUint(digits, base, 64)
			return n
		}
		sign, _ := strconv.ParseUint(m[1], 2, 64)
		ex := parse(v, m[2])
		// exponent is 11 bits: binary (11 digits) or hex (3 digits would be 12 bits: not used)
		if len(m[2]) == 11 {
			ex, _ = strconv.ParseUint(m[2], 2, 64)
		}
		var man uint64
		if len(m[3]) == 52 {
			man, _ = strconv.ParseUint(m[3], 2, 64)
		} else {
			man, _ = strconv.ParseUint(m[3], 16, 64)
		}
		bits := sign<<63 | ex<<52 | man
		_ = math.Float64frombits(bits)
		return fmt.Sprintf("math.Float64frombits(0x%016x)", bits), true
	}
	return "", false
}

type goGen struct {
	e       *Engine
	pkg     *types.Package
	imports map[string]bool
	subst   map[string]string
	ok      bool
	why     string
}

func (g *goGen) typeStr(t types.Type) string {
	return types.TypeString(t, func(p *types.Package) string {
		if p == g.pkg {
			return ""
		}
		g.imports[p.Path()] = true
		return p.Name()
	})
}

// exprToGo translates the scalar subset of contract expressions to Go.
func (g *goGen) exprToGo(x Expr) string {
	switch n := x.(type) {
	case *EBool:
		return fmt.Sprint(n.V)
	case *EInt:
		return n.V
	case *EFloat:
		return strconv.FormatFloat(n.V, 'g', -1, 64)
	case *EStr:
		return strconv.Quote(n.V)
	case *ENil:
		return "nil"
	case *EIdent:
		if s, ok := g.subst[n.Name]; ok {
			return s
		}
		return n.Name
	case *EUnary:
		return "(" + n.Op + g.exprToGo(n.X) + ")"
	case *EBinary:
		a, b := g.exprToGo(n.X), g.exprToGo(n.Y)
		switch n.Op {
		case "==>":
			return "(!(" + a + ") || (" + b + "))"
		case "<==>":
			return "((" + a + ") == (" + b + "))"
		case "in":
			g.ok, g.why = false, "'in' not replayable"
			return "false"
		}
		return "(" + a + " " + n.Op + " " + b + ")"
	case *ECond:
		g.imports["govc-cond"] = true
		return "func() interface{} { if " + g.exprToGo(n.C) + " { return " + g.exprToGo(n.A) + " }; return " + g.exprToGo(n.B) + " }()"
	case *ESel:
		return g.exprToGo(n.X) + "." + n.Name
	case *EOld:
		return g.exprToGo(n.X)
	case *ECall:
		id, ok := n.Fn.(*EIdent)
		if !ok {
			g.ok, g.why = false, "call form not replayable"
			return "false"
		}
		switch id.Name {
		case "same":
			g.imports["reflect"] = true
			return "reflect.DeepEqual(" + g.exprToGo(n.Args[0]) + ", " + g.exprToGo(n.Args[1]) + ")"
		case "isNaN":
			g.imports["math"] = true
			return "math.IsNaN(float64(" + g.exprToGo(n.Args[0]) + "))"
		case "len":
			return "len(" + g.exprToGo(n.Args[0]) + ")"
		case "float64":
			return "float64(" + g.exprToGo(n.Args[0]) + ")"
		}
		if p, ok := g.e.specs.preds[id.Name]; ok && !p.Rec {
			old := g.subst
			ns := map[string]string{}
			for k, v := range old {
				ns[k] = v
			}
			for i, pa := range p.Params {
				ns[pa.Name] = "(" + g.exprToGo(n.Args[i]) + ")"
			}
			g.subst = ns
			s := g.exprToGo(p.Body)
			g.subst = old
			return "(" + s + ")"
		}
		g.ok, g.why = false, "function "+id.Name+" not replayable"
		return "false"
	}
	g.ok, g.why = false, fmt.Sprintf("%T not replayable", x)
	return "false"
}

func replayableParam(t types.Type) bool {
	switch kindOf(t) {
	case KBool, KInt, KFloat, KString:
		return true
	case KStruct:
		st := t.Underlying().(*types.Struct)
		for i := 0; i < st.NumFields(); i++ {
			if !replayableParam(st.Field(i).Type()) {
				return false
			}
		}
		return true
	}
	return false
}

func (g *goGen) valueFromModel(model map[string]string, base string, t types.Type) (string, bool) {
	k := kindOf(t)
	if k == KStruct {
		st := t.Underlying().(*types.Struct)
		var parts []string
		for i := 0; i < st.NumFields(); i++ {
			s, ok := g.valueFromModel(model, base+"."+st.Field(i).Name(), st.Field(i).Type())
			if !ok {
				return "", false
			}
			parts = append(parts, st.Field(i).Name()+": "+s)
		}
		return g.typeStr(t) + "{" + strings.Join(parts, ", ") + "}", true
	}
	name := sanitize(base) + "!0"
	v, ok := model[name]
	var lit string
	if !ok {
		// unconstrained in the model: any value will do
		switch k {
		case KBool:
			lit = "false"
		case KInt:
			lit = "0"
		case KFloat:
			lit = "0.0"
		case KString:
			lit = `""`
		}
	} else {
		lit, ok = modelToGo(v, k)
		if !ok {
			return "", false
		}
		if k == KFloat {
			g.imports["math"] = true
		}
	}
	return g.typeStr(t) + "(" + lit + ")", true
}

func tryReplay(e *Engine, prop string, o *Obligation, model string, rep map[string]interface{}) {
	rep["replay"] = "not attempted"
	if scenarioReplay(e, o, rep) {
		return
	}
	if model == "" {
		rep["replay"] = "no model from the solver"
		return
	}
	f := o.f
	if f == nil || f.fn == nil || f.fn.Pkg == nil {
		rep["replay"] = "obligation is not attached to a function"
		return
	}
	if o.Kind != "ensures" || o.clause == nil {
		rep["replay"] = "no direct replay template for obligation kind " + o.Kind
		return
	}
	fn := f.fn
	for _, p := range fn.Params {
		if !replayableParam(p.Type()) {
			rep["replay"] = "parameter " + p.Name() + " is not a scalar/struct-of-scalars: no direct replay"
			return
		}
	}
	m := parseModel(model)
	g := &goGen{e: e, pkg: fn.Pkg.Pkg, imports: map[string]bool{"testing": true}, subst: map[string]string{}, ok: true}
	var decls []string
	var argNames []string
	for _, p := range fn.Params {
		v, ok := g.valueFromModel(m, "p."+p.Name(), p.Type())
		if !ok {
			rep["replay"] = "model value of " + p.Name() + " could not be rendered"
			return
		}
		decls = append(decls, fmt.Sprintf("\t%s := %s", p.Name(), v))
		argNames = append(argNames, p.Name())
	}
	call := ""
	nres := fn.Signature.Results().Len()
	var resNames []string
	for i := 0; i < nres; i++ {
		n := "result"
		if i > 0 {
			n = fmt.Sprintf("result%d", i)
		}
		resNames = append(resNames, n)
	}
	if fn.Signature.Recv() != nil {
		call = fmt.Sprintf("%s.%s(%s)", argNames[0], fn.Name(), strings.Join(argNames[1:], ", "))
	} else {
		call = fmt.Sprintf("%s(%s)", fn.Name(), strings.Join(argNames, ", "))
	}
	cond := g.exprToGo(o.clause.E)
	if !g.ok {
		rep["replay"] = g.why
		return
	}
	var b bytes.Buffer
	fmt.Fprintf(&b, "package %s\n\nimport (\n", fn.Pkg.Pkg.Name())
	for _, imp := range sortedKeys(g.imports) {
		if strings.HasPrefix(imp, "govc-") {
			continue
		}
		fmt.Fprintf(&b, "\t%q\n", imp)
	}
	fmt.Fprintf(&b, ")\n\nfunc TestGovcReplay(t *testing.T) {\n%s\n", strings.Join(decls, "\n"))
	if nres > 0 {
		fmt.Fprintf(&b, "\t%s := %s\n", strings.Join(resNames, ", "), call)
		for _, r := range resNames {
			fmt.Fprintf(&b, "\t_ = %s\n", r)
		}
	} else {
		fmt.Fprintf(&b, "\t%s\n", call)
	}
	for _, a := range argNames {
		fmt.Fprintf(&b, "\t_ = %s\n", a)
	}
	fmt.Fprintf(&b, "\tif !(%s) {\n\t\tt.Fatalf(\"GOVC-VIOLATED %%s with %s\", %q%s)\n\t}\n}\n", cond, strings.Repeat("%#v ", len(argNames)), o.clause.Src, func() string {
		s := ""
		for _, a := range argNames {
			s += ", " + a
		}
		return s
	}())
	src := b.String()
	rep["replay_test"] = src
	out, failed, err := runOverlayTest(e.repo, fn, src)
	rep["replay_output"] = out
	if err != nil {
		rep["replay"] = "replay could not be run: " + err.Error()
		return
	}
	if failed && strings.Contains(out, "GOVC-VIOLATED") {
		o.replayed = true
		rep["replay"] = "counterexample confirmed on the real code"
	} else {
		rep["replay"] = "the real code satisfied the clause on the solver's model (abstraction lost the proof)"
	}
}

func pkgDir(e *Engine, fn *ssa.Function) string {
	p := fn.Pkg.Pkg.Path()
	rel := strings.TrimPrefix(strings.TrimPrefix(p, modulePath), "/")
	return filepath.Join(e.repo, rel)
}

func runOverlayTest(repo string, fn *ssa.Function, src string) (string, bool, error) {
	dir, err := os.MkdirTemp("/var/tmp", "govc-replay-")
	if err != nil {
		return "", false, err
	}
	defer os.RemoveAll(dir)
	testSrc := filepath.Join(dir, "zz_govc_replay_test.go")
	if err := os.WriteFile(testSrc, []byte(src), 0o644); err != nil {
		return "", false, err
	}
	p := fn.Pkg.Pkg.Path()
	rel := strings.TrimPrefix(strings.TrimPrefix(p, modulePath), "/")
	target := filepath.Join(repo, rel, "zz_govc_replay_test.go")
	ov, _ := json.Marshal(map[string]interface{}{"Replace": map[string]string{target: testSrc}})
	ovPath := filepath.Join(dir, "overlay.json")
	os.WriteFile(ovPath, ov, 0o644)
	ctx, cancel := context.WithTimeout(context.Background(), 120*time.Second)
	defer cancel()
	cmd := exec.CommandContext(ctx, "go", "test", "-overlay", ovPath, "-vet=off", "-count=1", "-timeout", "60s", "-run", "^TestGovcReplay$", "./"+rel)
	cmd.Dir = repo
	cmd.Env = append(os.Environ(), "GOFLAGS=-mod=mod", "GOPROXY=off", "GOSUMDB=off", "GOTOOLCHAIN=local")
	out, err := cmd.CombinedOutput()
	s := string(out)
	if len(s) > 4000 {
		s = s[:4000]
	}
	if err != nil {
		if _, ok := err.(*exec.ExitError); ok {
			return s, true, nil
		}
		return s, false, err
	}
	return s, false, nil
}

type scenarioIndex struct {
	Scenarios []struct {
		Obligation string `json:"obligation"`
		File       string `json:"file"`
		Pkg        string `json:"pkg"`
		Race       bool   `json:"race"`
	} `json:"scenarios"`
}

// scenarioReplay: history/typestate obligations are replayed by a scenario test
// written for that obligation family; it runs against the tree being checked.
func scenarioReplay(e *Engine, o *Obligation, rep map[string]interface{}) bool {
	data, err := os.ReadFile("/verif/replay/scenarios/index.json")
	if err != nil {
		return false
	}
	var idx scenarioIndex
	if json.Unmarshal(data, &idx) != nil {
		return false
	}
	for _, s := range idx.Scenarios {
		re, err := regexp.Compile(s.Obligation)
		if err != nil || !re.MatchString(o.Name) {
			continue
		}
		src := filepath.Join("/verif/replay/scenarios", s.File)
		dir, err := os.MkdirTemp("/var/tmp", "govc-scenario-")
		if err != nil {
			return false
		}
		defer os.RemoveAll(dir)
		rel := s.Pkg
		if rel == "" {
			rel = "."
		}
		target := filepath.Join(e.repo, rel, "zz_govc_scenario_test.go")
		ov, _ := json.Marshal(map[string]interface{}{"Replace": map[string]string{target: src}})
		ovPath := filepath.Join(dir, "overlay.json")
		os.WriteFile(ovPath, ov, 0o644)
		ctx, cancel := context.WithTimeout(context.Background(), 180*time.Second)
		defer cancel()
		argv := []string{"test", "-overlay", ovPath, "-vet=off", "-count=1", "-timeout", "120s", "-run", "^TestGovcScenario", "./" + rel}
		if s.Race {
			argv = append([]string{"test", "-race"}, argv[1:]...)
		}
		cmd := exec.CommandContext(ctx, "go", argv...)
		cmd.Dir = e.repo
		cmd.Env = append(os.Environ(), "GOFLAGS=-mod=mod", "GOPROXY=off", "GOSUMDB=off", "GOTOOLCHAIN=local")
		out, _ := cmd.CombinedOutput()
		so := string(out)
		if len(so) > 4000 {
			so = so[:4000]
		}
		rep["replay_scenario"] = s.File
		rep["replay_output"] = so
		if strings.Contains(so, "GOVC-VIOLATED") || (s.Race && strings.Contains(so, "WARNING: DATA RACE")) {
			o.replayed = true
			rep["replay"] = "scenario confirmed the violation on the real code"
		} else {
			rep["replay"] = "scenario did not reproduce a violation on the real code"
		}
		return true
	}
	return false
}
