package main

// Counterexample replay against the real code (go test -overlay).

func tryReplay(e *Engine, prop string, o *Obligation, model string, rep map[string]interface{}) {
	rep["replay"] = "no replay template for this obligation kind"
}
