package main

import (
	"flag"
	"fmt"
	"os"
)

func main() {
	if len(os.Args) < 2 {
		fmt.Fprintln(os.Stderr, "usage: govc check|dump|funcs ...")
		os.Exit(2)
	}
	switch os.Args[1] {
	case "check":
		os.Exit(cmdCheck(os.Args[2:]))
	case "bindings":
		os.Exit(cmdBindings(os.Args[2:]))
	case "sweep":
		os.Exit(cmdSweep(os.Args[2:]))
	case "dump":
		os.Exit(cmdDump(os.Args[2:]))
	default:
		fmt.Fprintln(os.Stderr, "unknown command")
		os.Exit(2)
	}
}

func cmdDump(args []string) int {
	fs := flag.NewFlagSet("dump", flag.ExitOnError)
	repo := fs.String("repo", "/repo", "repository")
	fs.Parse(args)
	e, err := loadEngine(*repo, "/verif/contracts/repo")
	if err != nil {
		fmt.Fprintln(os.Stderr, err)
		return 2
	}
	for _, name := range fs.Args() {
		fn := e.funcsByName[name]
		if fn == nil {
			fmt.Println("not found:", name)
			continue
		}
		fn.WriteTo(os.Stdout)
	}
	return 0
}
