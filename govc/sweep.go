package main

// Zero-annotation safety sweep over a set of functions (debug/exploration
// command; the per-property checks select sweep obligations through
// contract files).

import (
	"flag"
	"fmt"
	"os"
	"sort"
	"strings"
	"sync"

	"golang.org/x/tools/go/ssa"
)

func cmdSweep(args []string) int {
	fs := flag.NewFlagSet("sweep", flag.ExitOnError)
	repo := fs.String("repo", "/repo", "repository")
	match := fs.String("match", "", "substring of function names")
	kinds := fs.String("kinds", "typeassert,close,nilmap", "sweep kinds")
	noSolve := fs.Bool("nosolve", false, "translate only")
	fs.Parse(args)
	e, err := loadEngine(*repo, "/verif/contracts/repo")
	if err != nil {
		fmt.Fprintln(os.Stderr, err)
		return 2
	}
	if err := e.loadSpecs("/verif/contracts/extern"); err != nil {
		fmt.Fprintln(os.Stderr, err)
		return 2
	}
	var fns []*ssa.Function
	for _, fn := range e.funcsByName {
		root := fn
		for root.Parent() != nil {
			root = root.Parent()
		}
		if root.Pkg == nil || !inModule(root.Pkg.Pkg) || fn.Synthetic != "" || len(fn.Blocks) == 0 {
			continue
		}
		if *match != "" && !strings.Contains(fn.String(), *match) {
			continue
		}
		fns = append(fns, fn)
	}
	sort.Slice(fns, func(i, j int) bool { return fns[i].String() < fns[j].String() })
	nObl, nFail, nErr := 0, 0, 0
	abstr := map[string]int{}
	var all []*Obligation
	for _, fn := range fns {
		f := newFnCtx(e, fn)
		func() {
			defer func() {
				if r := recover(); r != nil {
					f.fail("internal error: %v", r)
				}
			}()
			for _, k := range strings.Split(*kinds, ",") {
				f.sweep[k] = true
			}
			f.forceSweep = true
			f.translate()
		}()
		for _, er := range f.errs {
			nErr++
			fmt.Printf("ERR %s: %s\n", fnShortName(fn), er)
		}
		for k, v := range f.abstr {
			abstr[k] += v
		}
		for _, o := range f.obls {
			if o.Kind == "safety" {
				all = append(all, o)
			}
		}
	}
	nObl = len(all)
	if !*noSolve {
		var wg sync.WaitGroup
		for _, o := range all {
			wg.Add(1)
			go func(o *Obligation) { defer wg.Done(); o.discharge(e) }(o)
		}
		wg.Wait()
		for _, o := range all {
			if o.Res.Verdict != "unsat" {
				nFail++
				fmt.Printf("FAIL %-7s %s  (%s) %s\n", o.Res.Verdict, o.Name, o.Src, o.Line)
			}
		}
	}
	fmt.Printf("functions=%d obligations=%d failed=%d errors=%d\n", len(fns), nObl, nFail, nErr)
	var ks []string
	for k := range abstr {
		ks = append(ks, k)
	}
	sort.Slice(ks, func(i, j int) bool { return abstr[ks[i]] > abstr[ks[j]] })
	for i, k := range ks {
		if i < 40 {
			fmt.Printf("  abstr %4d %s\n", abstr[k], k)
		}
	}
	return 0
}
