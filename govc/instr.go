package main

// Per-instruction translation.

import (
	"fmt"
	"go/token"
	"go/types"
	"strings"
	"sync"

	"golang.org/x/tools/go/ssa"
)

func (fr *frame) inLoop(b *ssa.BasicBlock) bool {
	for _, body := range fr.loopBody {
		if body[b] {
			return true
		}
	}
	return fr.depth > 0 && fr.f.inlineInLoop
}

func (fr *frame) execBlock(b *ssa.BasicBlock, st *bstate) {
	f := fr.f
	for _, in := range b.Instrs {
		if st.reach == "false" {
			return
		}
		switch x := in.(type) {
		case *ssa.DebugRef:
			continue
		case *ssa.Phi:
			if fr.isHeader[b] {
				continue // havocked in loopHeader
			}
			fr.vals[x] = fr.phi(x, b)
			for _, e := range x.Edges {
				// a guarded map reference that survives a branch lives in a variable: the lock must still be held here
				fr.guardedRefHandedOn(e, st, "kept in a variable", x.Pos())
				if gr, ok := fr.guardedRefs[e]; ok {
					fr.guardedRefs[x] = gr // and whatever the variable is handed to later is checked too
				}
			}
		case *ssa.Alloc:
			fr.alloc(x, st)
		case *ssa.BinOp:
			fr.vals[x] = fr.binop(x, st)
			f.exact["BinOp"]++
		case *ssa.UnOp:
			fr.unop(x, st)
		case *ssa.Call:
			fr.call(x, st)
		case *ssa.ChangeType:
			v := fr.val(x.X)
			v.T = x.Type()
			fr.vals[x] = v
		case *ssa.Convert:
			fr.vals[x] = fr.convert(x, st)
		case *ssa.MultiConvert:
			f.abstr["MultiConvert"]++
			fr.vals[x] = f.freshVal("mconv", x.Type())
		case *ssa.ChangeInterface:
			v := fr.val(x.X)
			v.T = x.Type()
			fr.vals[x] = v
		case *ssa.MakeInterface:
			fr.vals[x] = f.makeIface(st, fr.val(x.X), x.X.Type())
			f.exact["MakeInterface"]++
		case *ssa.TypeAssert:
			fr.typeAssert(x, st)
		case *ssa.Extract:
			t := fr.val(x.Tuple)
			if t.K == KTuple && x.Index < len(t.Fs) {
				fr.vals[x] = t.Fs[x.Index]
			} else {
				f.abstr["Extract"]++
				fr.vals[x] = f.freshVal("extract", x.Type())
			}
		case *ssa.Field:
			s := fr.val(x.X)
			if s.K == KStruct && x.Field < len(s.Fs) {
				fr.vals[x] = s.Fs[x.Field]
			} else {
				f.abstr["Field"]++
				fr.vals[x] = f.freshVal("field", x.Type())
			}
		case *ssa.FieldAddr:
			fr.fieldAddr(x, st)
		case *ssa.IndexAddr:
			fr.indexAddr(x, st)
		case *ssa.Index:
			fr.index(x, st)
		case *ssa.Lookup:
			fr.lookup(x, st)
		case *ssa.MapUpdate:
			fr.mapUpdate(x, st)
		case *ssa.MakeMap:
			fr.makeMap(x, st)
		case *ssa.MakeSlice:
			base := f.newAllocRef(fr.inLoop(b))
			ln := fr.val(x.Len).Tm
			fr.vals[x] = f.newSlice(st, x.Type(), base, "0", ln)
			// elements are zero
			et := x.Type().Underlying().(*types.Slice).Elem()
			if isScalarKind(kindOf(et)) {
				key := f.elemKey(base, et)
				arr := f.hs.read(st.heap, key)
				z := f.zeroVal(et).Tm
				na := app("store", arr, base, app("(as const (Array Int "+sortOfType(et)+"))", z))
				nh := f.hs.write(st.heap, key, f.c.define("Hw."+key, f.hs.sorts[key], na))
				nh.obj = base
				st.heap = nh
			}
			f.exact["MakeSlice"]++
		case *ssa.MakeChan:
			r := f.newAllocRef(fr.inLoop(b))
			fr.vals[x] = Val{K: KRef, T: x.Type(), Tm: r}
			st.heap = f.setGhostAt(st.heap, chanClosedGhost(x.Type()), sortBool, r, "false")
			st.heap = f.setGhostAt(st.heap, chanCapGhost(x.Type()), sortInt, r, fr.val(x.Size).Tm)
			if !f.dry {
				f.localChans = append(f.localChans, &localChan{ref: r, t: x.Type()})
			}
			f.exact["MakeChan"]++
		case *ssa.MakeClosure:
			fn := x.Fn.(*ssa.Function)
			r := f.newAllocRef(fr.inLoop(b))
			var bind []Val
			for _, bv := range x.Bindings {
				bind = append(bind, fr.val(bv))
			}
			f.closures[r] = &closureInfo{fn: fn, bind: bind}
			// sweep kind "closurecells": a closure handed out as a per-request handler shares
			// no variable with its creator (and so with no other invocation): it captures
			// values only, never a variable cell.  Structural obligation.
			if f.sweep["closurecells"] {
				for i, bv := range x.Bindings {
					goal := "true"
					if _, isCell := bv.(*ssa.Alloc); isCell && i < len(fn.FreeVars) && fn.FreeVars[i].Referrers() != nil {
						// go/ssa captures every variable by reference; a capture is harmless when the
						// closure only ever loads from the cell
						for _, u := range *fn.FreeVars[i].Referrers() {
							if ld, ok := u.(*ssa.UnOp); ok && ld.Op == token.MUL {
								continue
							}
							if _, ok := u.(*ssa.DebugRef); ok {
								continue
							}
							goal = "false"
						}
					}
					f.oblige(st, fmt.Sprintf("%s#closure-shares-no-variable:%s:%s", fnShortName(fr.fn), fn.Name(), fn.FreeVars[i].Name()), "safety", f.sweepTags, goal,
						"the closure writes (or hands out the address of) the captured variable "+fn.FreeVars[i].Name()+": every invocation shares it", posStr(f.e.fset, x.Pos()))
				}
			}
			fr.vals[x] = Val{K: KRef, T: x.Type(), Tm: r}
			f.exact["MakeClosure"]++
		case *ssa.Slice:
			fr.slice(x, st)
		case *ssa.SliceToArrayPointer:
			f.abstr["SliceToArrayPointer"]++
			fr.vals[x] = f.freshVal("s2a", x.Type())
		case *ssa.Range:
			fr.rangeInit(x, st)
		case *ssa.Next:
			fr.next(x, st)
		case *ssa.Select:
			fr.selectInstr(x, st)
		case *ssa.Send:
			// sending on a closed channel panics: sweep kind "close"
			if f.sweep["close"] {
				ch := fr.val(x.Chan)
				closed := f.ghostAt(st.heap, chanClosedGhost(x.Chan.Type()), sortBool, ch.Tm)
				if ok, where := f.e.neverClosed(x.Chan); ok {
					f.assume(st, not(closed), "no code in the module closes the channels kept in "+where)
				}
				f.oblige(st, fmt.Sprintf("%s#send-on-open:%s", fnShortName(fr.fn), valueLabel(x.Chan)), "safety", f.sweepTags, not(closed), "send on channel that may be closed", posStr(f.e.fset, x.Pos()))
			}
			fr.noteSend(x, st)
			fr.beforeSendAsserts(x, st, "true", x.Chan, x.X)
			f.exact["Send"]++
		case *ssa.Store:
			addr := fr.val(x.Addr)
			pt, _ := x.Addr.Type().Underlying().(*types.Pointer)
			if pt == nil {
				f.abstr["Store-nonptr"]++
				st.heap = f.hs.havocAll(st.heap)
				continue
			}
			fr.checkGuardedAccess(x.Addr, st, true, x.Pos())
			fr.checkFieldStore(x.Addr, st, x.Pos())
			if g, ok := x.Addr.(*ssa.Global); ok && !f.e.mutableGlobals[g] {
				continue // init-time store
			}
			if a, isAlloc := x.Addr.(*ssa.Alloc); !isAlloc || fr.escaping[a] {
				f.publish(fr.val(x.Val))
			}
			if _, ownCell := x.Addr.(*ssa.Alloc); ownCell {
				fr.guardedRefHandedOn(x.Val, st, "stored in a variable", x.Pos())
			} else {
				fr.guardedRefHandedOn(x.Val, st, "copied to another location", x.Pos())
			}
			st.heap = f.store(st.heap, addr, pt.Elem(), fr.val(x.Val))
			f.exact["Store"]++
		case *ssa.Defer:
			fr.deferInstr(x, st)
		case *ssa.RunDefers:
			fr.runDefers(st)
		case *ssa.Go:
			// the spawned function runs concurrently; its effects are not part of this function
			f.exact["Go"]++
			if f.sweep["nogo"] && !f.dry {
				f.oblige(st, fmt.Sprintf("%s#no-goroutine-on-this-path", fnShortName(fr.fn)), "safety", f.sweepTags, "false",
					"a goroutine is started on a path that must run synchronously", posStr(f.e.fset, x.Pos()))
			}
			fr.noteGo(x, st)
		case *ssa.If, *ssa.Jump:
			// handled by edge()
		case *ssa.Return:
			var vals []Val
			for _, r := range x.Results {
				vals = append(vals, fr.val(r))
			}
			for _, rv := range x.Results {
				fr.guardedRefHandedOn(rv, st, "returned", x.Pos())
			}
			fr.beforeReturnAsserts(x, st, vals)
			fr.rets = append(fr.rets, retState{st: &bstate{reach: st.reach, heap: st.heap, seg: st.seg}, vals: vals})
		case *ssa.Panic:
			if f.sweep["panic"] {
				f.oblige(st, fmt.Sprintf("%s#no-explicit-panic", fnShortName(fr.fn)), "safety", f.sweepTags, "false", "explicit panic reachable", posStr(f.e.fset, x.Pos()))
			}
			st.reach = "false"
		default:
			f.abstr[fmt.Sprintf("%T", in)]++
			if v, ok := in.(ssa.Value); ok {
				fr.vals[v] = f.freshVal("abs", v.Type())
			}
		}
	}
}

func posStr(fset *token.FileSet, p token.Pos) string {
	if !p.IsValid() {
		return ""
	}
	pp := fset.Position(p)
	return fmt.Sprintf("%s:%d", strings.TrimPrefix(pp.Filename, "/repo/"), pp.Line)
}

func valueLabel(v ssa.Value) string {
	switch x := v.(type) {
	case *ssa.UnOp:
		if x.Op == token.MUL {
			return valueLabel(x.X)
		}
	case *ssa.FieldAddr:
		st := x.X.Type().Underlying().(*types.Pointer).Elem().Underlying().(*types.Struct)
		return valueLabel(x.X) + "." + st.Field(x.Field).Name()
	case *ssa.Field:
		st := x.X.Type().Underlying().(*types.Struct)
		return valueLabel(x.X) + "." + st.Field(x.Field).Name()
	case *ssa.Parameter:
		return x.Name()
	case *ssa.FreeVar:
		return x.Name()
	case *ssa.Global:
		return x.Name()
	case *ssa.Alloc:
		if x.Comment != "" {
			return x.Comment
		}
	case *ssa.Lookup:
		return valueLabel(x.X) + "[]"
	case *ssa.Call:
		if c := x.Call.StaticCallee(); c != nil {
			return c.Name() + "()"
		}
		if x.Call.IsInvoke() {
			return valueLabel(x.Call.Value) + "." + x.Call.Method.Name() + "()"
		}
	case *ssa.Extract:
		return valueLabel(x.Tuple)
	case *ssa.TypeAssert:
		return valueLabel(x.X) + ".(" + types.TypeString(x.AssertedType, func(p *types.Package) string { return p.Name() }) + ")"
	case *ssa.MakeInterface:
		return valueLabel(x.X)
	case *ssa.ChangeType:
		return valueLabel(x.X)
	case *ssa.Phi:
		if x.Comment != "" {
			return x.Comment
		}
	case *ssa.Const:
		return x.Name()
	}
	return "_"
}

func (fr *frame) phi(x *ssa.Phi, b *ssa.BasicBlock) Val {
	f := fr.f
	var conds []string
	var vals []Val
	for i, p := range b.Preds {
		if isBackEdge(p, b) || fr.out[p] == nil {
			continue
		}
		c := fr.edge(p, b)
		if c == "false" {
			continue
		}
		conds = append(conds, c)
		vals = append(vals, fr.val(x.Edges[i]))
	}
	if len(vals) == 0 {
		return f.freshVal("phi", x.Type())
	}
	v := vals[len(vals)-1]
	for i := len(vals) - 2; i >= 0; i-- {
		v = f.iteVal(conds[i], vals[i], v)
	}
	v.T = x.Type()
	return f.nameVal("phi."+x.Name(), v)
}

func (fr *frame) alloc(x *ssa.Alloc, st *bstate) {
	f := fr.f
	r := f.newAllocRef(fr.inLoop(x.Block()))
	if !fr.escaping[x] && !strings.HasPrefix(r, "alloc") {
		f.localAllocs[r] = true
	}
	et := x.Type().Underlying().(*types.Pointer).Elem()
	p := Val{K: KRef, T: x.Type(), Tm: r}
	fr.vals[x] = p
	if _, isArr := et.Underlying().(*types.Array); isArr {
		f.exact["Alloc"]++
		return
	}
	st.heap = f.store(st.heap, p, et, f.zeroVal(et))
	f.exact["Alloc"]++
}

// sweep kind "nilresult": the pointer result of a call that also returns an error is dereferenced only where
// the error is known to be nil (or the pointer known to be non-nil): `u, err := url.Parse(s)` followed by
// `u.Host` on a path where err may be non-nil is a nil dereference for the inputs the callee rejects.
func (fr *frame) checkNilResult(ptr ssa.Value, st *bstate, pos token.Pos) {
	f := fr.f
	if !f.sweep["nilresult"] || f.dry || fr.recovers() {
		return
	}
	if ld, ok := ptr.(*ssa.UnOp); ok && ld.Op == token.MUL {
		// a pointer variable whose address was handed to a decoder (json.Unmarshal(data, &p)): JSON null
		// leaves it nil, so it is dereferenced only where it is known to be non-nil
		if cell, ok := ld.X.(*ssa.Alloc); ok && cell.Referrers() != nil {
			decoded := false
			for _, r := range *cell.Referrers() {
				var v ssa.Value = cell
				_ = v
				if mi, ok := r.(*ssa.MakeInterface); ok && mi.Referrers() != nil {
					for _, r2 := range *mi.Referrers() {
						if c, ok := r2.(ssa.CallInstruction); ok {
							if callee := c.Common().StaticCallee(); callee != nil {
								switch callee.String() {
								case "encoding/json.Unmarshal", "(*encoding/json.Decoder).Decode":
									decoded = true
								}
							}
						}
					}
				}
			}
			if pt, ok := ld.Type().Underlying().(*types.Pointer); ok && decoded {
				_ = pt
				if pv, ok := fr.valOK(ptr); ok && pv.K == KRef {
					f.oblige(st, fmt.Sprintf("%s#decoded-pointer-used-only-when-non-nil:%s", fnShortName(fr.fn), valueLabel(cell)), "safety", f.sweepTags, not(eq(pv.Tm, "0")),
						"a pointer that a JSON decoder may have set to nil (JSON null) is dereferenced only where it is known to be non-nil", posStr(f.e.fset, pos))
				}
			}
		}
		return
	}
	ex, ok := ptr.(*ssa.Extract)
	if !ok {
		return
	}
	call, ok := ex.Tuple.(*ssa.Call)
	if !ok {
		return
	}
	tup, ok := call.Type().(*types.Tuple)
	if !ok || tup.Len() < 2 {
		return
	}
	last := tup.Len() - 1
	if ex.Index == last || tup.At(last).Type().String() != "error" {
		return
	}
	tv, ok := fr.valOK(call)
	if !ok || tv.K != KTuple || len(tv.Fs) <= last {
		return
	}
	pv, ok := fr.valOK(ptr)
	if !ok || pv.K != KRef || tv.Fs[last].K != KAny {
		return
	}
	goal := or(eq(tv.Fs[last].Tm, "any_nil"), not(eq(pv.Tm, "0")))
	f.oblige(st, fmt.Sprintf("%s#result-used-only-without-error:%s", fnShortName(fr.fn), valueLabel(ptr)), "safety", f.sweepTags, goal,
		"the pointer result of a call that may have failed is dereferenced only where its error is nil", posStr(f.e.fset, pos))
}

func (fr *frame) fieldAddr(x *ssa.FieldAddr, st *bstate) {
	f := fr.f
	base := fr.val(x.X)
	fr.checkNilResult(x.X, st, x.Pos())
	T := x.X.Type().Underlying().(*types.Pointer).Elem()
	stt := T.Underlying().(*types.Struct)
	ft := stt.Field(x.Field).Type()
	if base.K != KRef {
		f.abstr["FieldAddr-nonref"]++
		fr.vals[x] = f.freshVal("fa", x.Type())
		return
	}
	f.exact["FieldAddr"]++
	if kindOf(ft) == KStruct {
		fr.vals[x] = Val{K: KRef, T: x.Type(), Tm: f.faddr(base.Tm, T, x.Field)}
		return
	}
	if _, isArr := ft.Underlying().(*types.Array); isArr {
		fr.vals[x] = Val{K: KRef, T: x.Type(), Tm: f.faddr(base.Tm, T, x.Field)}
		return
	}
	key := f.fieldKey(base.Tm, T, x.Field)
	fr.vals[x] = Val{K: KAddr, T: x.Type(), A: &Addr{Key: key, Sort: sortOfType(ft), Obj: base.Tm, ET: ft}}
}

func (fr *frame) indexAddr(x *ssa.IndexAddr, st *bstate) {
	f := fr.f
	base := fr.val(x.X)
	idx := fr.val(x.Index).Tm
	var et types.Type
	var b, i, ln string
	switch t := x.X.Type().Underlying().(type) {
	case *types.Slice:
		// an element of a slice that was loaded from a guarded field is read or written with the lock held,
		// also when the slice header was copied to a local while the lock was held
		fr.checkGuardedValue(x.X, st, false, x.Pos())
		et = t.Elem()
		b, i, ln = f.sliceBase(base.Tm), app("+", f.sliceOff(base.Tm), idx), f.sliceLen(base.Tm)
	case *types.Pointer:
		at := t.Elem().Underlying().(*types.Array)
		et = at.Elem()
		b, i, ln = base.Tm, idx, intLit(at.Len())
		if f.localAllocs[base.Tm] {
			f.localAllocs[b] = true
		}
	default:
		f.abstr["IndexAddr"]++
		fr.vals[x] = f.freshVal("ia", x.Type())
		return
	}
	f.indexTerms = append(f.indexTerms, idx)
	if f.sweep["index"] {
		f.oblige(st, fmt.Sprintf("%s#index-in-range:%s", fnShortName(fr.fn), valueLabel(x.X)), "safety", f.sweepTags,
			and(app("<=", "0", idx), app("<", idx, ln)), "index in range", posStr(f.e.fset, x.Pos()))
	}
	f.exact["IndexAddr"]++
	if kindOf(et) == KStruct {
		fr.vals[x] = Val{K: KRef, T: x.Type(), Tm: f.eaddr(b, i, et)}
		return
	}
	key := f.elemKey(b, et)
	fr.vals[x] = Val{K: KAddr, T: x.Type(), A: &Addr{Key: key, Sort: sortOfType(et), Obj: b, Idx: i, ET: et}}
}

func (fr *frame) index(x *ssa.Index, st *bstate) {
	f := fr.f
	// x.X is a string, array value or type param
	if kindOf(x.X.Type()) == KString {
		f.abstr["Index-string"]++
		if f.sweep["index"] {
			idx := fr.val(x.Index).Tm
			f.oblige(st, fmt.Sprintf("%s#string-index-in-range:%s", fnShortName(fr.fn), valueLabel(x.X)), "safety", f.sweepTags,
				and(app("<=", "0", idx), app("<", idx, app("str.len", fr.val(x.X).Tm))), "string index in range", posStr(f.e.fset, x.Pos()))
		}
	} else {
		f.abstr["Index-array"]++
	}
	v := f.freshVal("idx", x.Type())
	f.assumeTypeRange(st, v)
	fr.vals[x] = v
}

func (fr *frame) lookup(x *ssa.Lookup, st *bstate) {
	f := fr.f
	m := fr.val(x.X)
	k := fr.val(x.Index)
	mt, isMap := x.X.Type().Underlying().(*types.Map)
	if !isMap {
		// string index
		f.abstr["Lookup-string"]++
		if f.sweep["index"] && m.K == KString {
			f.oblige(st, fmt.Sprintf("%s#string-index-in-range:%s", fnShortName(fr.fn), valueLabel(x.X)), "safety", f.sweepTags,
				and(app("<=", "0", k.Tm), app("<", k.Tm, app("str.len", m.Tm))), "string index in range", posStr(f.e.fset, x.Pos()))
		}
		v := f.freshVal("sidx", x.Type())
		f.assumeTypeRange(st, v)
		fr.vals[x] = v
		return
	}
	fr.checkGuardedValue(x.X, st, false, x.Pos())
	fr.checkHashableKey(x.Index, st, valueLabel(x.X), x.Pos())
	vk, dk, ok := f.mapKeys(mt)
	var okT string
	var val Val
	if dk == "" {
		f.abstr["Lookup-compositekey"]++
		okT = f.c.freshConst("lk.ok", sortBool)
		val = f.freshVal("lk.v", mt.Elem())
	} else {
		okT = app("select", app("select", f.hs.read(st.heap, dk), m.Tm), k.Tm)
		okT = and(not(eq(m.Tm, "0")), okT)
		if ok {
			raw := app("select", app("select", f.hs.read(st.heap, vk), m.Tm), k.Tm)
			val = Val{K: kindOf(mt.Elem()), T: mt.Elem(), Tm: ite(okT, raw, f.zeroVal(mt.Elem()).Tm)}
		} else {
			f.abstr["Lookup-structvalue"]++
			val = f.iteVal(okT, f.freshVal("lk.v", mt.Elem()), f.zeroVal(mt.Elem()))
		}
		f.exact["Lookup"]++
	}
	okN := f.c.define("lk.ok", sortBool, okT)
	if x.CommaOk {
		fr.vals[x] = Val{K: KTuple, T: x.Type(), Fs: []Val{f.nameVal("lk.v", val), boolVal(okN)}}
	} else {
		fr.vals[x] = f.nameVal("lk.v", val)
	}
}

func (fr *frame) mapUpdate(x *ssa.MapUpdate, st *bstate) {
	f := fr.f
	m := fr.val(x.Map)
	k := fr.val(x.Key)
	v := fr.val(x.Value)
	mt := x.Map.Type().Underlying().(*types.Map)
	fr.checkGuardedValue(x.Map, st, true, x.Pos())
	if u, ok := x.Map.(*ssa.UnOp); ok && u.Op == token.MUL {
		fr.checkFieldContents(u.X, st, x.Pos()) // changing the contents of a private map counts as writing the field
	}
	fr.checkHashableKey(x.Key, st, valueLabel(x.Map), x.Pos())
	if f.sweep["nilmap"] {
		f.oblige(st, fmt.Sprintf("%s#write-non-nil-map:%s", fnShortName(fr.fn), valueLabel(x.Map)), "safety", f.sweepTags,
			not(eq(m.Tm, "0")), "assignment to entry in nil map", posStr(f.e.fset, x.Pos()))
	}
	vk, dk, ok := f.mapKeys(mt)
	if dk == "" {
		f.abstr["MapUpdate-compositekey"]++
		return
	}
	dom := f.hs.read(st.heap, dk)
	oldDom := app("select", dom, m.Tm)
	nd := app("store", dom, m.Tm, app("store", oldDom, k.Tm, "true"))
	nh := f.hs.write(st.heap, dk, f.c.define("Hw."+dk, f.hs.sorts[dk], nd))
	nh.obj = m.Tm
	// length bookkeeping
	lenFn := f.mapLenFn(mt)
	f.assume(st, eq(app(lenFn, app("store", oldDom, k.Tm, "true")), app("+", app(lenFn, oldDom), ite(app("select", oldDom, k.Tm), "0", "1"))), "map length after insert")
	if ok {
		vals := f.hs.read(st.heap, vk)
		nv := app("store", vals, m.Tm, app("store", app("select", vals, m.Tm), k.Tm, v.Tm))
		nh = f.hs.write(nh, vk, f.c.define("Hw."+vk, f.hs.sorts[vk], nv))
		nh.obj = m.Tm
		f.exact["MapUpdate"]++
	} else {
		f.abstr["MapUpdate-structvalue"]++
	}
	st.heap = nh
	f.publish(v)
	fr.noteTransient(x, st, m.Tm, k.Tm, dk)
}

func (f *FnCtx) mapLenFn(mt *types.Map) string {
	name := "mlen." + typeKey(mt.Key())
	f.c.declFun(name, []string{"(Array " + sortOfType(mt.Key()) + " Bool)"}, sortInt)
	return name
}

func (fr *frame) makeMap(x *ssa.MakeMap, st *bstate) {
	f := fr.f
	r := f.newAllocRef(fr.inLoop(x.Block()))
	mt := x.Type().Underlying().(*types.Map)
	fr.vals[x] = Val{K: KRef, T: x.Type(), Tm: r}
	_, dk, _ := f.mapKeys(mt)
	if dk == "" {
		f.abstr["MakeMap-compositekey"]++
		return
	}
	dom := f.hs.read(st.heap, dk)
	empty := "((as const (Array " + sortOfType(mt.Key()) + " Bool)) false)"
	nh := f.hs.write(st.heap, dk, f.c.define("Hw."+dk, f.hs.sorts[dk], app("store", dom, r, empty)))
	nh.obj = r
	st.heap = nh
	f.assume(st, eq(app(f.mapLenFn(mt), empty), "0"), "empty map length")
	f.exact["MakeMap"]++
}

func (fr *frame) slice(x *ssa.Slice, st *bstate) {
	f := fr.f
	base := fr.val(x.X)
	lowT := "0"
	if x.Low != nil {
		lowT = fr.val(x.Low).Tm
	}
	switch t := x.X.Type().Underlying().(type) {
	case *types.Slice:
		hi := f.sliceLen(base.Tm)
		if x.High != nil {
			hi = fr.val(x.High).Tm
		}
		if f.sweep["index"] {
			f.oblige(st, fmt.Sprintf("%s#slice-bounds:%s", fnShortName(fr.fn), valueLabel(x.X)), "safety", f.sweepTags,
				and(app("<=", "0", lowT), app("<=", lowT, hi), app("<=", hi, f.sliceCap(base.Tm))), "slice bounds in range", posStr(f.e.fset, x.Pos()))
		}
		fr.vals[x] = f.newSlice(st, x.Type(), f.sliceBase(base.Tm), app("+", f.sliceOff(base.Tm), lowT), app("-", hi, lowT))
		f.exact["Slice"]++
	case *types.Pointer: // *array
		at := t.Elem().Underlying().(*types.Array)
		hi := intLit(at.Len())
		if x.High != nil {
			hi = fr.val(x.High).Tm
		}
		fr.vals[x] = f.newSlice(st, x.Type(), base.Tm, lowT, app("-", hi, lowT))
		f.exact["Slice"]++
	case *types.Basic: // string
		s := base.Tm
		hi := app("str.len", s)
		if x.High != nil {
			hi = fr.val(x.High).Tm
		}
		if f.sweep["index"] {
			f.oblige(st, fmt.Sprintf("%s#string-slice-bounds:%s", fnShortName(fr.fn), valueLabel(x.X)), "safety", f.sweepTags,
				and(app("<=", "0", lowT), app("<=", lowT, hi), app("<=", hi, app("str.len", s))), "string slice bounds in range", posStr(f.e.fset, x.Pos()))
		}
		fr.vals[x] = Val{K: KString, T: x.Type(), Tm: app("str.substr", s, lowT, app("-", hi, lowT))}
		f.exact["Slice"]++
	default:
		f.abstr["Slice"]++
		fr.vals[x] = f.freshVal("slice", x.Type())
	}
}

func (fr *frame) rangeInit(x *ssa.Range, st *bstate) {
	f := fr.f
	// iterator: remember the ranged value; visited-set ghost for maps
	it := f.c.freshConst("iter", sortInt)
	fr.vals[x] = Val{K: KRef, T: x.Type(), Tm: it}
	if mt, ok := x.X.Type().Underlying().(*types.Map); ok {
		fr.checkGuardedValue(x.X, st, false, x.Pos())
		// ghost: number of keys yielded so far, and the total at the time the iteration starts
		f.rangeN++
		key := fmt.Sprintf("G.range.%d.%d.n", fr.id, f.rangeN)
		f.hs.regKey(key, sortInt)
		f.hs.final[key] = true
		if fr.top {
			f.rangeKeys[f.rangeN] = key
		}
		st.heap = f.hs.write(st.heap, key, "0")
		total := "0"
		if _, dk, _ := f.mapKeys(mt); dk != "" {
			m := fr.val(x.X)
			total = f.c.define("range.total", sortInt, ite(eq(m.Tm, "0"), "0", app(f.mapLenFn(mt), app("select", f.hs.read(st.heap, dk), m.Tm))))
			f.assume(st, app(">=", total, "0"), "len(map) >= 0")
		} else {
			total = f.c.freshConst("range.total", sortInt)
		}
		if fr.rangeInfo == nil {
			fr.rangeInfo = map[*ssa.Range][2]string{}
		}
		fr.rangeInfo[x] = [2]string{key, total}
		// ghost: the set of keys yielded so far, and the map's key set when the iteration started
		if _, dk, _ := f.mapKeys(mt); dk != "" {
			ks := sortOfType(mt.Key())
			vkey := fmt.Sprintf("G.range.%d.%d.vis", fr.id, f.rangeN)
			f.hs.regKey(vkey, "(Array "+ks+" Bool)")
			f.hs.final[vkey] = true
			st.heap = f.hs.write(st.heap, vkey, "((as const (Array "+ks+" Bool)) false)")
			m := fr.val(x.X)
			dom0 := f.c.define("range.dom0", "(Array "+ks+" Bool)", app("select", f.hs.read(st.heap, dk), m.Tm))
			if fr.rangeVis == nil {
				fr.rangeVis = map[*ssa.Range][3]string{}
			}
			fr.rangeVis[x] = [3]string{vkey, dom0, ks}
			if fr.top {
				f.rangeVisKeys[f.rangeN] = vkey
				f.rangeDom0[f.rangeN] = dom0
			}
		}
	}
	f.exact["Range"]++
}

func (fr *frame) next(x *ssa.Next, st *bstate) {
	f := fr.f
	rg, _ := x.Iter.(*ssa.Range)
	tup := x.Type().(*types.Tuple)
	ok := f.c.freshConst("next.ok", sortBool)
	kt, vt := tup.At(1).Type(), tup.At(2).Type()
	if rg != nil && !x.IsString {
		if mt, isMap := rg.X.Type().Underlying().(*types.Map); isMap {
			kt, vt = mt.Key(), mt.Elem() // unused components have an invalid type in the tuple
		}
	}
	kv := f.freshVal("next.k", kt)
	vv := f.freshVal("next.v", vt)
	f.assumeTypeRange(st, kv)
	f.assumeTypeRange(st, vv)
	if rg != nil && !x.IsString {
		if mt, isMap := rg.X.Type().Underlying().(*types.Map); isMap {
			m := fr.val(rg.X)
			vk, dk, okv := f.mapKeys(mt)
			if dk != "" && kv.K != KUnit && kindOf(tup.At(1).Type()) != KUnit && kv.Tm != "" {
				inDom := app("select", app("select", f.hs.read(st.heap, dk), m.Tm), kv.Tm)
				f.assume(st, implies(ok, and(not(eq(m.Tm, "0")), inDom)), "range yields present keys")
				if okv && vv.Tm != "" {
					f.assume(st, implies(ok, eq(vv.Tm, app("select", app("select", f.hs.read(st.heap, vk), m.Tm), kv.Tm))), "range yields the stored value")
				}
			}
			// an empty or nil map yields nothing
			if dk != "" {
				f.assume(st, implies(eq(m.Tm, "0"), not(ok)), "range over nil map")
			}
			// visited set: a key is yielded at most once; when the iteration ends every key that was in the
			// map at its start and still is has been yielded (entries added meanwhile may be skipped)
			if vi, has := fr.rangeVis[rg]; has && dk != "" && kv.K != KUnit && kv.Tm != "" && kindOf(tup.At(1).Type()) != KUnit {
				vis := f.hs.read(st.heap, vi[0])
				f.assume(st, implies(ok, not(app("select", vis, kv.Tm))), "range yields a key at most once")
				st.heap = f.hs.write(st.heap, vi[0], f.c.define("range.vis", "(Array "+vi[2]+" Bool)", ite(ok, app("store", vis, kv.Tm, "true"), vis)))
			}
			if vi, has := fr.rangeVis[rg]; has && dk != "" {
				vis := f.hs.read(st.heap, vi[0])
				f.qn++
				q := fmt.Sprintf("rv%d.k", f.qn)
				domNow := app("select", f.hs.read(st.heap, dk), m.Tm)
				f.assume(st, implies(not(ok), fmt.Sprintf("(forall ((%s %s)) (=> (and (select %s %s) (select %s %s)) (select %s %s)))", q, vi[2], vi[1], q, domNow, q, vis, q)), "a finished map iteration has yielded every key that stayed in the map")
			}
		}
	}
	if rg != nil && fr.rangeInfo != nil {
		if info, has := fr.rangeInfo[rg]; has {
			n := f.hs.read(st.heap, info[0])
			f.assume(st, and(app("<=", "0", n), app("<=", n, info[1]), implies(ok, app("<", n, info[1])), implies(not(ok), eq(n, info[1]))), "map iteration yields each key once")
			st.heap = f.hs.write(st.heap, info[0], f.c.define("range.n", sortInt, ite(ok, app("+", n, "1"), n)))
		}
	}
	fr.vals[x] = Val{K: KTuple, T: x.Type(), Fs: []Val{boolVal(ok), kv, vv}}
	f.exact["Next"]++
}

func (fr *frame) selectInstr(x *ssa.Select, st *bstate) {
	f := fr.f
	n := len(x.States)
	idx := f.c.freshConst("sel.idx", sortInt)
	lo := "0"
	if !x.Blocking {
		lo = "(- 1)"
	}
	f.assume(st, and(app("<=", lo, idx), app("<", idx, intLit(int64(n)))), "select chooses one of its cases")
	tup := x.Type().(*types.Tuple)
	v := Val{K: KTuple, T: x.Type()}
	v.Fs = append(v.Fs, intVal(idx), boolVal(f.c.freshConst("sel.ok", sortBool)))
	for i := 2; i < tup.Len(); i++ {
		rv := f.freshVal("sel.recv", tup.At(i).Type())
		f.assumeTypeRange(st, rv)
		v.Fs = append(v.Fs, rv)
	}
	fr.vals[x] = v
	f.exact["Select"]++
	// a receive from ctx.Done() that is taken means the context has ended
	for i, s := range x.States {
		if c, ok := s.Chan.(*ssa.Call); ok && c.Call.IsInvoke() && c.Call.Method.Name() == "Done" {
			if g, ok := f.e.specs.ghosts["ctxdone"]; ok && len(g.Params) == 1 {
				cv := fr.val(c.Call.Value)
				if cv.K == KAny {
					key := f.ghostKey("ctxdone", sortBool, true, sortAny)
					f.assume(st, implies(eq(idx, intLit(int64(i))), app("select", f.hs.read(st.heap, key), cv.Tm)), "a taken receive from ctx.Done() means the context has ended")
				}
			}
		}
	}
	for i, s := range x.States {
		if s.Dir == types.SendOnly {
			fr.beforeSendAsserts(x, st, eq(idx, intLit(int64(i))), s.Chan, s.Send)
		}
	}
	// a send case that is taken on a closed channel panics (also with a default case)
	if f.sweep["close"] && !fr.recovers() {
		for i, s := range x.States {
			if s.Dir != types.SendOnly {
				continue
			}
			ch := fr.val(s.Chan)
			closed := f.ghostAt(st.heap, chanClosedGhost(s.Chan.Type()), sortBool, ch.Tm)
			if ok, where := f.e.neverClosed(s.Chan); ok {
				f.assume(st, not(closed), "no code in the module closes the channels kept in "+where)
			}
			f.oblige(st, fmt.Sprintf("%s#send-on-open:%s", fnShortName(fr.fn), valueLabel(s.Chan)), "safety", f.sweepTags,
				implies(eq(idx, intLit(int64(i))), not(closed)), "send case of a select on a channel that may be closed", posStr(f.e.fset, x.Pos()))
		}
	}
	fr.noteSelect(x, st)
}

// recovers: the function (or the function it is inlined into) has a deferred recover().
func (fr *frame) recovers() bool {
	return fnRecovers(fr.fn)
}

var recoversMemo sync.Map

// fnRecovers: one of the function's deferred calls runs the recover builtin (go/ssa gives every
// function with a defer a Recover block, so that block says nothing).
func fnRecovers(fn *ssa.Function) bool {
	if v, ok := recoversMemo.Load(fn); ok {
		return v.(bool)
	}
	callsRecover := func(g *ssa.Function) bool {
		for _, b := range g.Blocks {
			for _, in := range b.Instrs {
				if c, ok := in.(ssa.CallInstruction); ok {
					if bi, ok := c.Common().Value.(*ssa.Builtin); ok && bi.Name() == "recover" {
						return true
					}
				}
			}
		}
		return false
	}
	res := false
	for _, b := range fn.Blocks {
		for _, in := range b.Instrs {
			d, ok := in.(*ssa.Defer)
			if !ok {
				continue
			}
			var g *ssa.Function
			switch v := d.Call.Value.(type) {
			case *ssa.Function:
				g = v
			case *ssa.MakeClosure:
				g, _ = v.Fn.(*ssa.Function)
			}
			if g != nil && callsRecover(g) {
				res = true
			}
		}
	}
	recoversMemo.Store(fn, res)
	return res
}

func (fr *frame) typeAssert(x *ssa.TypeAssert, st *bstate) {
	f := fr.f
	v := fr.val(x.X)
	ok, payload := f.typeTest(v, x.AssertedType)
	okN := f.c.define("ta.ok", sortBool, ok)
	f.exact["TypeAssert"]++
	// a value boxed with an integer type lies in that type's range
	if kindOf(x.AssertedType) == KInt {
		if t := f.typeRangeTerm(payload); t != "true" {
			f.assume(st, implies(okN, t), "type range of a boxed integer")
		}
	}
	if x.CommaOk {
		z := f.zeroVal(x.AssertedType)
		fr.vals[x] = Val{K: KTuple, T: x.Type(), Fs: []Val{f.nameVal("ta.v", f.iteVal(okN, payload, z)), boolVal(okN)}}
		return
	}
	if f.sweep["typeassert"] && !fr.recovers() {
		f.oblige(st, fmt.Sprintf("%s#typeassert:%s", fnShortName(fr.fn), valueLabel(x)), "safety", f.sweepTags, okN,
			"single-result type assertion cannot fail", posStr(f.e.fset, x.Pos()))
	}
	f.assume(st, okN, "type assertion succeeded (else panic)")
	fr.vals[x] = payload
}

func (fr *frame) unop(x *ssa.UnOp, st *bstate) {
	f := fr.f
	v := fr.val(x.X)
	switch x.Op {
	case token.NOT:
		fr.vals[x] = boolVal(not(v.Tm))
		f.exact["UnOp"]++
	case token.SUB:
		if v.K == KFloat {
			fr.vals[x] = Val{K: KFloat, T: x.Type(), Tm: app("fp.neg", v.Tm)}
		} else {
			fr.vals[x] = Val{K: KInt, T: x.Type(), Tm: app("-", v.Tm)}
		}
		f.exact["UnOp"]++
	case token.MUL:
		pt, ok := x.X.Type().Underlying().(*types.Pointer)
		if !ok {
			f.abstr["Load-nonptr"]++
			fr.vals[x] = f.freshVal("ld", x.Type())
			return
		}
		if g, isG := x.X.(*ssa.Global); isG {
			fr.vals[x] = fr.loadGlobal(g, st)
			return
		}
		fr.checkGuardedAccess(x.X, st, false, x.Pos())
		fr.checkGuardedMapEscape(x, st)
		lv := f.load(st.heap, v, pt.Elem())
		lv = f.nameVal("ld."+x.Name(), lv)
		if lv.K == KRef && f.lastLoadKey != "" && !f.dirtyAll && !f.dirtyKey[f.lastLoadKey] && !strings.HasPrefix(f.lastLoadKey, "L") {
			f.assumeOldRef(st, lv)
		}
		fr.vals[x] = lv
		f.exact["Load"]++
	case token.ARROW:
		// receive: value unconstrained (zero if closed)
		tv := x.Type()
		if x.CommaOk {
			tup := tv.(*types.Tuple)
			rv := f.freshVal("recv", tup.At(0).Type())
			f.assumeTypeRange(st, rv)
			fr.vals[x] = Val{K: KTuple, T: tv, Fs: []Val{rv, boolVal(f.c.freshConst("recv.ok", sortBool))}}
		} else {
			rv := f.freshVal("recv", tv)
			f.assumeTypeRange(st, rv)
			fr.vals[x] = rv
		}
		fr.noteRecv(x, st)
		f.exact["Recv"]++
	case token.XOR:
		f.abstr["UnOp-xor"]++
		fr.vals[x] = f.freshVal("xor", x.Type())
	default:
		f.abstr["UnOp-"+x.Op.String()]++
		fr.vals[x] = f.freshVal("unop", x.Type())
	}
}

func (fr *frame) loadGlobal(g *ssa.Global, st *bstate) Val {
	f := fr.f
	et := g.Type().Underlying().(*types.Pointer).Elem()
	if f.e.mutableGlobals[g] {
		f.abstr["Load-mutable-global"]++
		v := f.freshVal("g."+g.Name(), et)
		if st != nil {
			f.assumeTypeRange(st, v)
		}
		return v
	}
	// init-only global: one fixed value per run
	name := "gval." + sanitize(g.String())
	k := kindOf(et)
	if k == KAny {
		// error sentinels etc.: distinct non-nil values
		if types.Implements(et, errorIface()) || et.String() == "error" {
			id := f.e.globalID(g)
			f.exact["Load-global"]++
			return Val{K: KAny, T: et, Tm: app("any_ref", intLit(int64(f.e.tags.tag(errorStringType(f.e)))), intLit(int64(id)))}
		}
	}
	if isScalarKind(k) {
		f.c.declConst(name, kindSort(k))
		f.exact["Load-global"]++
		return Val{K: k, T: et, Tm: name}
	}
	f.abstr["Load-global-composite"]++
	return f.freshVal("g."+g.Name(), et)
}

func errorIface() *types.Interface {
	return types.Universe.Lookup("error").Type().Underlying().(*types.Interface)
}

func errorStringType(e *Engine) types.Type {
	if p := e.tpkgs["errors"]; p != nil {
		if o := p.Scope().Lookup("errorString"); o != nil {
			return types.NewPointer(o.Type())
		}
	}
	return types.Typ[types.String]
}

func (e *Engine) globalID(g *ssa.Global) int {
	if e.globalIDs == nil {
		e.globalIDs = map[*ssa.Global]int{}
	}
	if id, ok := e.globalIDs[g]; ok {
		return id
	}
	id := 2000000 + len(e.globalIDs)
	e.globalIDs[g] = id
	return id
}

func (fr *frame) convert(x *ssa.Convert, st *bstate) Val {
	f := fr.f
	v := fr.val(x.X)
	from, to := kindOf(x.X.Type()), kindOf(x.Type())
	switch {
	case from == KInt && to == KInt:
		f.exact["Convert"]++
		// narrowing conversions wrap; we only model value-preserving ones exactly
		lo, hi, ok := intRange(x.Type())
		if !ok {
			return Val{K: KInt, T: x.Type(), Tm: v.Tm}
		}
		flo, fhi, fok := intRange(x.X.Type())
		if fok && rangeWithin(flo, fhi, lo, hi) {
			return Val{K: KInt, T: x.Type(), Tm: v.Tm}
		}
		in := and(app("<=", lo, v.Tm), app("<=", v.Tm, hi))
		if f.spec != nil && f.sweep["overflow"] {
			f.oblige(st, fmt.Sprintf("%s#convert-in-range:%s", fnShortName(fr.fn), valueLabel(x.X)), "safety", f.sweepTags, in, "integer conversion preserves the value", posStr(f.e.fset, x.Pos()))
		}
		w := f.freshVal("conv", x.Type())
		f.assumeTypeRange(st, w)
		return Val{K: KInt, T: x.Type(), Tm: ite(in, v.Tm, w.Tm)}
	case from == KInt && to == KFloat:
		f.exact["Convert"]++
		return Val{K: KFloat, T: x.Type(), Tm: f.i2f(v.Tm)}
	case from == KFloat && to == KInt:
		f.exact["Convert"]++
		lo, hi, _ := intRange(x.Type())
		if lo == "" {
			lo, hi = "(- 9223372036854775808)", "9223372036854775807"
		}
		tr := f.f2i(v.Tm)
		inr := and(not(app("fp.isNaN", v.Tm)), not(app("fp.isInfinite", v.Tm)), app("<=", lo, tr), app("<=", tr, hi))
		inrN := f.c.define("f2i.inrange", sortBool, inr)
		if f.sweep["overflow"] {
			f.oblige(st, fmt.Sprintf("%s#float-to-int-in-range:%s", fnShortName(fr.fn), valueLabel(x.X)), "safety", f.sweepTags, inrN,
				"float to integer conversion is in range (otherwise the result is implementation-defined)", posStr(f.e.fset, x.Pos()))
		}
		w := f.freshVal("f2i.any", x.Type())
		f.assumeTypeRange(st, w)
		return Val{K: KInt, T: x.Type(), Tm: f.c.define("f2i", sortInt, ite(inrN, tr, w.Tm))}
	case from == KFloat && to == KFloat:
		return Val{K: KFloat, T: x.Type(), Tm: v.Tm}
	case from == KString && to == KString:
		return Val{K: KString, T: x.Type(), Tm: v.Tm}
	case from == KRef && to == KString:
		// []byte -> string: contents of the bytes; modelled as an uninterpreted function of the slice and heap version
		f.abstr["Convert-bytes-to-string"]++
		return f.freshVal("b2s", x.Type())
	case from == KString && to == KRef:
		f.abstr["Convert-string-to-bytes"]++
		s := f.c.freshConst("s2b", sortInt)
		f.assume(st, and(app(">=", f.sliceLen(s), "0"), implies(eq(v.Tm, `""`), eq(f.sliceLen(s), "0"))), "bytes of string")
		return Val{K: KRef, T: x.Type(), Tm: s}
	case from == KRef && to == KRef:
		return Val{K: KRef, T: x.Type(), Tm: v.Tm}
	}
	f.abstr["Convert-"+x.X.Type().String()+"-to-"+x.Type().String()]++
	w := f.freshVal("conv", x.Type())
	f.assumeTypeRange(st, w)
	return w
}

func rangeWithin(flo, fhi, lo, hi string) bool {
	p := func(s string) (neg bool, mag string) {
		if strings.HasPrefix(s, "(- ") {
			return true, strings.TrimSuffix(s[3:], ")")
		}
		return false, s
	}
	less := func(a, b string) bool { // a <= b
		an, am := p(a)
		bn, bm := p(b)
		cmp := func(x, y string) int {
			if len(x) != len(y) {
				if len(x) < len(y) {
					return -1
				}
				return 1
			}
			return strings.Compare(x, y)
		}
		switch {
		case an && !bn:
			return true
		case !an && bn:
			return false
		case an && bn:
			return cmp(am, bm) >= 0
		}
		return cmp(am, bm) <= 0
	}
	return less(lo, flo) && less(fhi, hi)
}

func (fr *frame) binop(x *ssa.BinOp, st *bstate) Val {
	f := fr.f
	a, b := fr.val(x.X), fr.val(x.Y)
	rt := x.Type()
	k := a.K
	switch x.Op {
	case token.EQL:
		return boolVal(f.c.define("eq", sortBool, f.eqVal(a, b)))
	case token.NEQ:
		return boolVal(f.c.define("neq", sortBool, not(f.eqVal(a, b))))
	}
	switch k {
	case KInt:
		switch x.Op {
		case token.ADD:
			return Val{K: KInt, T: rt, Tm: app("+", a.Tm, b.Tm)}
		case token.SUB:
			return Val{K: KInt, T: rt, Tm: app("-", a.Tm, b.Tm)}
		case token.MUL:
			return Val{K: KInt, T: rt, Tm: app("*", a.Tm, b.Tm)}
		case token.QUO:
			if f.sweep["div"] {
				f.oblige(st, fmt.Sprintf("%s#div-nonzero", fnShortName(fr.fn)), "safety", f.sweepTags, not(eq(b.Tm, "0")), "integer division by zero", posStr(f.e.fset, x.Pos()))
			}
			// Go truncates toward zero
			q := ite(app(">=", a.Tm, "0"), app("div", a.Tm, b.Tm), app("-", app("div", app("-", a.Tm), b.Tm)))
			return Val{K: KInt, T: rt, Tm: q}
		case token.REM:
			q := ite(app(">=", a.Tm, "0"), app("mod", a.Tm, b.Tm), app("-", app("mod", app("-", a.Tm), b.Tm)))
			return Val{K: KInt, T: rt, Tm: q}
		case token.LSS:
			return boolVal(app("<", a.Tm, b.Tm))
		case token.LEQ:
			return boolVal(app("<=", a.Tm, b.Tm))
		case token.GTR:
			return boolVal(app(">", a.Tm, b.Tm))
		case token.GEQ:
			return boolVal(app(">=", a.Tm, b.Tm))
		}
	case KFloat:
		switch x.Op {
		case token.ADD:
			return Val{K: KFloat, T: rt, Tm: app("fp.add", "RNE", a.Tm, b.Tm)}
		case token.SUB:
			return Val{K: KFloat, T: rt, Tm: app("fp.sub", "RNE", a.Tm, b.Tm)}
		case token.MUL:
			return Val{K: KFloat, T: rt, Tm: app("fp.mul", "RNE", a.Tm, b.Tm)}
		case token.QUO:
			return Val{K: KFloat, T: rt, Tm: app("fp.div", "RNE", a.Tm, b.Tm)}
		case token.LSS:
			return boolVal(app("fp.lt", a.Tm, b.Tm))
		case token.LEQ:
			return boolVal(app("fp.leq", a.Tm, b.Tm))
		case token.GTR:
			return boolVal(app("fp.gt", a.Tm, b.Tm))
		case token.GEQ:
			return boolVal(app("fp.geq", a.Tm, b.Tm))
		}
	case KString:
		switch x.Op {
		case token.ADD:
			return Val{K: KString, T: rt, Tm: app("str.++", a.Tm, b.Tm)}
		case token.LSS:
			return boolVal(app("str.<", a.Tm, b.Tm))
		case token.LEQ:
			return boolVal(app("str.<=", a.Tm, b.Tm))
		case token.GTR:
			return boolVal(app("str.<", b.Tm, a.Tm))
		case token.GEQ:
			return boolVal(app("str.<=", b.Tm, a.Tm))
		}
	case KBool:
		switch x.Op {
		case token.AND, token.LAND:
			return boolVal(and(a.Tm, b.Tm))
		case token.OR, token.LOR:
			return boolVal(or(a.Tm, b.Tm))
		}
	}
	f.exact["BinOp"]--
	f.abstr["BinOp-"+x.Op.String()+"-"+fmt.Sprint(k)]++
	w := f.freshVal("binop", rt)
	f.assumeTypeRange(st, w)
	return w
}

// ---------------------------------------------------------------------------
// ghost state helpers (stored in the heap so that merging, havoc and old() work)

func (f *FnCtx) ghostKey(name, elemSort string, indexed bool, idxSort string) string {
	key := "G." + name
	if _, ok := f.hs.sorts[key]; !ok {
		if g, ok := f.e.specs.ghosts[name]; ok && g.Stable {
			f.hs.final[key] = true
			f.hs.stable[key] = true
		}
		if indexed {
			f.hs.regKey(key, "(Array "+idxSort+" "+elemSort+")")
		} else {
			f.hs.regKey(key, elemSort)
		}
	}
	return key
}

func (f *FnCtx) ghostAt(h *Heap, name, elemSort, obj string) string {
	key := f.ghostKey(name, elemSort, true, sortInt)
	return app("select", f.hs.read(h, key), obj)
}

func (f *FnCtx) setGhostAt(h *Heap, name, elemSort, obj, val string) *Heap {
	key := f.ghostKey(name, elemSort, true, sortInt)
	arr := f.hs.read(h, key)
	nh := f.hs.write(h, key, f.c.define("Hg."+key, f.hs.sorts[key], app("store", arr, obj, val)))
	nh.obj = obj
	return nh
}
