#!/usr/bin/env python3
# Regenerates the seed table of DESIGN.md (I.7) and work/seed_table.txt from the logs of the last corpus run
# (work/par_seed_*.log, written by bin/corpus-run): one row per seeded change with the first failing obligations.
import re, glob, sys
rows = {}
for f in sorted(glob.glob('/verif/work/par_seed_*.log')):
    for l in open(f):
        l = l.rstrip('\n')
        if '|' not in l:
            continue
        sid, rest = l.split('|', 1)
        obs = re.findall(r'obligation=(\S+)', rest)
        if 'no alarm' in rest:
            rows[sid] = '(not reported)'
        elif 'PATCH-DOES-NOT-APPLY' in rest:
            rows[sid] = '(patch does not apply)'
        else:
            out = []
            for o in obs:
                if o == 'stale-contract':
                    o = 'stale-contract'
                if o not in out:
                    out.append(o)
            rows[sid] = '; '.join(out[:2])
def key(s):
    m = re.match(r'C(\d+)-(\d+)', s)
    return (int(m.group(1)), int(m.group(2)))
ids = sorted(rows, key=key)
open('/verif/work/seed_table.txt', 'w').write(''.join('%s\t%s\n' % (i, rows[i]) for i in ids))
p = '/verif/DESIGN.md'
L = open(p).read().split('\n')
start = next(i for i, l in enumerate(L) if l.startswith('| seed | caught by'))
end = start + 2
while end < len(L) and re.match(r'^\| C\d+-\d+ \|', L[end]):
    end += 1
new = ['| %s | `%s` |' % (i, rows[i]) for i in ids]
L[start + 2:end] = new
open(p, 'w').write('\n'.join(L))
print(len(ids), 'rows;', sum(1 for i in ids if rows[i] in ('(not reported)', '(patch does not apply)')), 'not reported')
