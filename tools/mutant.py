#!/usr/bin/env python3
"""mutant.py <Cnn> <name> <file> <old> <new>  — make a must-fail mutant patch against /repo HEAD."""
import sys, subprocess, os
prop, name, path, old, new = sys.argv[1:6]
p = os.path.join('/repo', path)
s = open(p).read()
if s.count(old) < 1:
    sys.exit(f"pattern not found in {path}: {old[:60]!r}")
open(p, 'w').write(s.replace(old, new, 1))
d = subprocess.run(['git', '-C', '/repo', 'diff', '--', path], capture_output=True, text=True).stdout
subprocess.run(['git', '-C', '/repo', 'checkout', '--', path])
os.makedirs(f'/verif/selftest/{prop}', exist_ok=True)
open(f'/verif/selftest/{prop}/{name}.diff', 'w').write(d)
print(f"selftest/{prop}/{name}.diff ({len(d.splitlines())} lines)")
