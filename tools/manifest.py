#!/usr/bin/env python3
"""Regenerates /verif/MANIFEST.json from the table below (and validates it)."""
import json, subprocess
T = "contract-based deductive verification (VCs generated from go/ssa of the real code, SMT portfolio z3/z3-new/cvc5, counterexample replay with go test -overlay)"
NOTE = "Trusted: go/types+go/ssa, the govc VC generator, the SMT solvers, assumed contracts in /verif/contracts/extern/std.spec and on interface methods (listed per run in evidence.coverage.trusted_base), callspecs of user callbacks, sequential per-function reasoning with interference only at lock acquisitions of declared guarded fields."
checks = {
 "C06": ("Deductive safety sweep, for all inputs, over every function declared in the server-side files (424 functions): each single-result type assertion, channel close, send, and map-entry write is an obligation discharged from contracts and type invariants (maps created by constructors are final and non-nil); values decoded by encoding/json are unconstrained dynamic types, so 'any JSON type in any field' is decided for the whole type lattice at once. Plus lock obligations (no self-deadlock: Lock only when not held, Unlock only when held, every function and every loop iteration lock-balanced) and reader-loop obligations for the stdio server (each iteration consumes a line; the loop is left only when the input or the context ended). Not decided: goroutine leaks, resource exhaustion, deadlocks between goroutines, that HTTP answers are error statuses (C03).", "DESIGN.md section 3, C06"),
 "C07": ("Deductive safety sweep over every function of the client-side files (186 functions): type assertions on decoded values, channel closes (the endpoint latch is closed only behind its atomic flag; pending response channels are closed only by their owning call), map writes; reader-loop obligations for the stdio read loop, the legacy SSE reader, the POST-SSE response reader and the listening-stream reader: every iteration consumes input (no spinning), the loop is left only on end of input / context / close, and no bufio.Scanner with a small token limit reads a protocol stream. Not decided: CPU time, that the affected call returns an error (C08), Close 'still succeeds' beyond not panicking.", "DESIGN.md section 3, C07"),
 "C09": ("Frame atomicity as a lock discipline, proved for every function that touches the declared fields: the writer/flusher/responder of a listening stream (getSSEConnection) and of an sseStream are accessed only with the stream's lock held; the three writer goroutines of a legacy SSE session (event queue, keep-alive, notifications) write and flush only with session.writeMu held (assertion before each write call; a contract whose call site disappeared is reported as stale); the stdio server writes each message with exactly one Write call made under the transport's output lock. Not decided: frame *shape* for all payloads (that marshalled JSON has no raw newline is encoding/json's), the POST-SSE response writer (confined to the request goroutine), interleavings themselves.", "DESIGN.md section 3, C09"),
 "C12": ("Deductive proof per registry operation: every access to tools/prompts/resources/templates/subscribers/notification-handler maps happens with the owning mutex held in the right mode (guarded-access obligations over the whole module, including map operations on values loaded from the fields); registerTool, getTool, getTools, unregisterTools, registerPrompt, registerResource make exactly one lock acquisition (one critical section = atomic replace / one snapshot); registerTool leaves every other entry untouched and installs tool and handler with one map store; getTool finds exactly the present names; list results have no more entries than the registry (map-iteration counter); getPrompts/getResources return one entry per registered item; the resource order slice only holds registered uris (type invariant). Not decided: linearizability under real schedules, unregisterTools' in-place splice of toolsOrder (outside the append-as-copy subset).", "DESIGN.md section 3, C12"),
 "C15": ("Deductive proof for every middleware slice: applyMiddlewares returns chain(ms, core, 0) with chain(k) = ms[k](chain(k+1)) (recursive spec function, loop invariant) - index 0 outermost, each middleware applied exactly once; handleRequest hands exactly that chain, built around this request's own core closure, to a single invocation (ghost call counter), the core dispatches exactly once, and without middlewares dispatch is direct; use appends in call order and keeps earlier entries. Not decided: that a middleware error becomes -32603 in each transport wrapper (seed C15-2 is a known gap), option ordering through WithMiddleware/initComponents, behaviour of user middlewares.", "DESIGN.md section 3, C15"),
 "C20": ("Race freedom as a discipline: every field of the long-lived shared structs that is mutated after construction is declared guarded by a mutex (or is a sync/atomic cell), every other declared field is final; the check proves, for all 123 functions that touch them, lock held in the right mode at every access (including map/slice operations on loaded values) and no store to a final field outside constructors. Known findings (confirmed with go test -race): the Streamable HTTP client's sessionID/lastEventID/isStateless/enableGetSSE and Client.initialized/state are plain fields written after construction. Not decided: fields not declared (hb-by-channel hand-offs such as sseConn.bodyClose), races inside dependencies.", "DESIGN.md section 3, C20"),
 "C16": ("Deductive proof for all inputs: selectSupportedVersion returns the requested version iff it is supported, else the default, never an unsupported one (loop invariant + type invariant default in supported, established by the constructor, fields final); handleInitialize answers with that version, the configured name/version, the tools capability always and prompts/resources exactly when the registries are non-empty (chain of contracts through updateCapabilities, convertToServerCapabilities, buildInitializeResponse, getPrompts, getResources); malformed params give -32602 with the request id. Client and StdioClient: type invariant initialized <=> state==Initialized, second handshake refused without a transport operation, failed handshake leaves Disconnected/uninitialized, Close resets, every operation before the handshake fails with zero transport operations (ghost counter), and only Initialize/Close/setState may write the state fields (frame obligation over the whole module). Not decided: behaviour under concurrent use of one client (C20).", "DESIGN.md section 3, C16"),
 "C17": ("Deductive proof, for all inputs and all loop iterations, of contracts on retry.Config.Validate (every configuration incl. NaN/Inf/negative is clamped into the documented ranges; identity on valid configurations; idempotence as a lemma over the contract), retry.Execute (at most MaxRetries+1 attempts, a re-attempt only after IsRetryableError, exactly one attempt without retries, the value handed to time.After is in [0,MaxBackoff] and equals trunc(Initial*Factor^(k-1)) below the cap, float->Duration conversion in range) and IsRetryableError(nil). Not decided: wall-clock timing and classification of real net/http error texts.", "DESIGN.md section 3, C17"),
}
na = {
 "C18": "schema generation is a reflective walk whose meaning is fixed by kin-openapi and encoding/json; no contract within reach can state it (DESIGN.md section 4)",
}
not_built = ["C01","C02","C03","C04","C05","C08","C10","C11","C13","C14","C19"]
m = {
 "version": 1,
 "setup_cmd": "cd /verif/govc && GOFLAGS=-mod=mod GOPROXY=off GOSUMDB=off GOTOOLCHAIN=local go build -o /verif/bin/govc .",
 "hooks": {
  "guard": "verif",
  "enable": "go build -tags verif (the guarded files are comment-only contract files zz_contracts_verif.go; govc loads /repo with -tags=verif; replays inject in-package tests with go test -overlay, so no executable hook is needed)",
  "baseline_off_cmd": "cd /repo && GOFLAGS=-mod=mod GOPROXY=off GOSUMDB=off go test -vet=off -count=1 -timeout 25m ./...",
  "source_commits": subprocess.run("git -C /repo log --format=%h --grep='^verif:'", shell=True, capture_output=True, text=True).stdout.split(),
  "add_only": True,
 },
 "engines": [{"name": "govc", "path": "/verif/govc", "serves_properties": sorted(checks), "kind_free_text": "contract-based deductive verifier for Go written for this task: weakest-precondition style VC generation over go/ssa of the current /repo source (contracts in //@ comment files behind build tag verif), obligations discharged by a z3 4.8.12 / z3 5.1.0 / cvc5 portfolio, counterexample models replayed on the real code with go test -overlay"}],
 "checks": [],
 "notes": "Properties not listed under checks or not_applicable are not built yet: " + ", ".join(p for p in not_built if p not in checks) + " (see DESIGN.md section 7).",
 "not_applicable": [{"property_id": k, "reason": v} for k, v in sorted(na.items())],
}
for p in sorted(checks):
    text, ref = checks[p]
    m["checks"].append({
     "property_id": p,
     "quick_cmd": f"/verif/bin/check {p} --tier quick",
     "thorough_cmd": f"/verif/bin/check {p} --tier thorough && /verif/bin/selftest {p}",
     "evidence_file": f"/verif/evidence/{p}.json",
     "replay_cmd_template": "cat {path}",
     "engine": "govc",
     "level_claimed": {"category": "proof", "text": text, "design_ref": ref},
     "level_note": NOTE,
     "technique": T,
    })
json.dump(m, open('/verif/MANIFEST.json', 'w'), indent=1)
import jsonschema
jsonschema.validate(m, json.load(open('/root/.vp/MANIFEST.schema.json')))
print("MANIFEST ok:", ", ".join(sorted(checks)))
